#!/venv/bin/python
"""Single launcher for every ppsim command (avoids the `python -m pkg.mod` double import)."""
import os
import sys

DET_ENV = {"PYTHONHASHSEED": None, "OMP_NUM_THREADS": "1", "OPENBLAS_NUM_THREADS": "1",
           "MKL_NUM_THREADS": "1", "NUMBA_NUM_THREADS": "1", "PYTHONDONTWRITEBYTECODE": "1"}


def _reexec_if_needed():
    need = False
    env = dict(os.environ)
    if "PYTHONHASHSEED" not in env:
        env["PYTHONHASHSEED"] = "0"
        need = True
    for k, v in DET_ENV.items():
        if v is not None and env.get(k) != v:
            env[k] = v
            need = True
    if need:
        os.execve(sys.executable, [sys.executable] + sys.argv, env)


def main():
    _reexec_if_needed()
    here = os.path.dirname(os.path.abspath(__file__))
    sys.path.insert(0, here)
    if os.environ.get("PPSIM_REPO"):
        # development aid: run the checks against a scratch copy / worktree of the repository
        # (registered commands never set this: they use the editable install of /repo)
        sys.path.insert(0, os.environ["PPSIM_REPO"])
    import warnings
    warnings.filterwarnings("ignore")
    import logging
    logging.disable(logging.CRITICAL)
    from ppsim import core
    args = sys.argv[1:]
    if not args:
        print("usage: check <Cxx> [--tier quick|thorough] [--episodes N] [--wall S] | check replay <file> "
              "| check digests <Cxx> <tier> <i,j,k>")
        return 2
    if args[0] == "replay":
        return core.cmd_replay(args[1:])
    if args[0] == "digests":
        idx = [int(x) for x in args[3].split(",") if x]
        return core.cmd_digests(args[1], args[2], idx, int(os.environ.get("VERIF_SEED", "0")))
    prop = args[0]
    tier = os.environ.get("VERIF_TIER", "quick")
    budget = wall = None
    selftest = True
    i = 1
    while i < len(args):
        if args[i] == "--tier":
            tier = args[i + 1]; i += 2
        elif args[i] == "--episodes":
            budget = int(args[i + 1]); i += 2
        elif args[i] == "--wall":
            wall = float(args[i + 1]); i += 2
        elif args[i] == "--no-selftest":
            selftest = False; i += 1
        else:
            print("unknown argument", args[i]); return 2
    seed = int(os.environ.get("VERIF_SEED", "0"))
    return core.run_check(prop, tier, seed, budget, wall, selftest)


if __name__ == "__main__":
    try:
        rc = main()
    except SystemExit:
        raise
    except BaseException:
        import traceback
        traceback.print_exc()
        print("HARNESS-ERROR uncaught exception in launcher")
        rc = 2
    sys.stdout.flush()
    sys.exit(rc)
