#!/bin/bash
# Offline set-up: nothing is installed. Verifies the interpreter and imports the checks need and
# creates the output directories.
set -e
cd "$(dirname "$0")"
mkdir -p evidence replays
/venv/bin/python - <<'PY'
import importlib, os, sys
need = ["pandapower", "numba", "numpy", "pandas", "scipy", "lightsim2grid", "openpyxl", "xlsxwriter",
        "cryptography"]
bad = []
for m in need:
    try:
        importlib.import_module(m)
    except Exception as e:
        bad.append(f"{m}: {e}")
import pandapower
p = os.path.realpath(pandapower.__file__)
if not p.startswith("/repo/"):
    bad.append(f"pandapower imported from {p}, expected /repo (editable install)")
if bad:
    print("SETUP-ERROR", *bad, sep="\n  ")
    sys.exit(2)
print("setup ok: pandapower", pandapower.__version__, "from", p)
PY
