#!/usr/bin/env python3
"""Regenerates /verif/MANIFEST.json from the table below (kept in one place so that the manifest
stays valid and consistent while checks are added)."""
import json
import os

HERE = os.path.dirname(os.path.dirname(os.path.abspath(__file__)))
NA = {
    "C01": "pure function of (net, options): Kirchhoff balance of one result set; the failing cases are element mixes at one bus, i.e. input generation - no schedule, fault, clock or history for a simulator to own",
    "C02": "differential test of element equations against an independent re-implementation; pure function of one input",
    "C03": "algebraic identity (energy conservation, non-negative losses) of one result set; pure function",
    "C04": "setpoint/response laws of one result set; the Q-limit loop is a deterministic internal iteration with no externally schedulable step",
    "C05": "metamorphic relation between two inputs (re-representation); pure function",
    "C06": "solver x input cross product; its only history-dependent clause (init='results') is decided under C09",
    "C07": "graph reachability of one input vs. one result set; pure function (switching histories are exercised under C09)",
    "C10": "one result set vs. slack weights; pure function",
    "C11": "3-phase vs. symmetric result of one input; pure function",
    "C16": "feasibility of one OPF result; pure function",
    "C17": "cost evaluation / convex optimum of one OPF problem; pure function",
    "C18": "IEC 60909 identities of one result set; pure function",
    "C19": "estimator fixed point for one measurement set; pure function (and state estimation cannot run under the installed numpy 2.5: np.in1d / np.linalg.linalg removed)",
    "C21": "converter round trip of one input; the file is written and read once with no behaviour at the seam",
    "C23": "metamorphic relation per toolbox transformation; pure function (the referential effect of the same calls is decided under C22)",
    "C24": "batch vs. single creation of one argument vector; pure function",
    "C25": "standard-type application of one type; pure function",
    "C26": "graph construction of one input; pure function",
    "C28": "equivalent of one input; get_equivalent deep-copies its argument on entry, so there is no crash dimension either",
    "C29": "monotonicity of a pure function of current",
    "C31": "table lookup of one input; pure function (its write-through into the user's table was a C08 violation and is caught there)",
    "C32": "interpolation of one data set; pure function (serialisation of characteristics is exercised under C20)",
    "C33": "one controller step as a function of (P,Q,V); pure function",
}
COMMON_NOTE = ("Sampling, not proof. Trusted: CPython, the harness oracles (ppsim/oracles.py), the reference "
               "calculations on scrubbed copies (real pandapower code). Episodes run in-process in 16 long-lived "
               "lanes; isolation between episodes is checked by the determinism self-test, not assumed.")
CHECKS = {
    "C08": ("Seeded search over (network, calculation kind, options, crash point): every calculation is run with no fault, with a natural failure, or with an exception injected at a seeded Python-level call/line event of the pipeline; the user's element tables are compared before/after. A clean batch is evidence, not proof.",
            "Single fault per calculation; recovery code (finally/except bodies and code called from them) is never interrupted; faults only in Python frames of /repo/pandapower; nets <= 60 buses. " + COMMON_NOTE,
            "deterministic simulation: sys.settrace crash-point injection + natural failures, table-snapshot oracle, seeded episodes with ddmin shrinking and replay",
            "DESIGN.md section 4, C08"),
    "C09": ("Seeded search over histories (edits, switching, successful / failed / interrupted calculations of all kinds) with probes that compare the next calculation on the live object with the same calculation on a scrubbed deep copy.",
            "init='results' clause operationalised: previous converged default-start result at most 2 switching/small-setpoint edits old, previous result and fresh reference are ordinary operating points (0.8-1.2 p.u.), the fresh run needs <= 6 iterations; a failing init-results run is judged for algorithm='nr' only; nets <= 60 buses; tolerance 1e-6 (5e-5/1e-4 for different start points); one open known finding (other-solution-branch). " + COMMON_NOTE,
            "deterministic simulation: seeded operation/fault histories, replica (scrubbed-copy) oracle, crash-point injection into earlier calculations",
            "DESIGN.md section 4, C09"),
    "C12": ("Seeded search over ConstControl sets (every supported element.variable, single/multi index, DFData/SimData), OutputWriter variable selections (batch-readable and not, subsets, eval functions, constructor tuples), time-step sequences, recycle modes, runpp/rundcpp, a simulated wall clock for intermediate dumps, failing steps (natural and planned) with recovery, and repeated runs on one net; every recorded value is compared with a fresh power flow of a replica at that step.",
            "Steps at and after a stressed state (reference fails / >5 iterations / voltages outside 0.9-1.1 without the live run flagging a failure) are inconclusive (start-point effects); one open known finding (0 vs NaN at out-of-service branches in batch-read results). " + COMMON_NOTE,
            "deterministic simulation: logical time steps, simulated clock and data source, failing run callback; replica with a fresh power flow per step as reference model",
            "DESIGN.md section 4, C12"),
    "C13": ("Seeded search over controller sets (Discrete/Continuous tap control on 2W/3W transformers and both sides, ConstControl, probe controllers) with seeded levels/orders/in_service/start taps/bands/max_iter, planned failures of run invocations, repeated calls with edits in between; the recorded event history of every call is checked for outcome class, bounded termination, convergence and freshness of results on return, tap invariants after every control step, and call order.",
            "One tap controller per transformer; check_each_level default; one open known finding (multi-level: lower level disturbed by a higher one). " + COMMON_NOTE,
            "deterministic simulation: recorded controller/run event history with a failing run callback and probe controllers; invariants over the history + fresh power flow as reference",
            "DESIGN.md section 4, C13"),
    "C14": ("Seeded search over meshed nets, N-1 case sets in seeded order (incl. own outage first), naturally failing and planned-failing cases, raise_errors/write_to_net, and exceptions injected inside the N-1 loop; extremes, causes and overload flags are recomputed from the per-case history recorded at the evaluation-function seam; N-0 equals a plain power flow; in_service flags restored on every exit; a second seeded case order gives the same extremes.",
            "The recorded per-case results are the ground truth (the property is about aggregation). " + COMMON_NOTE,
            "deterministic simulation: recording/failing callback at the evaluation-function seam, ExtremesModel over the recorded history, crash-point injection",
            "DESIGN.md section 4, C14"),
    "C15": ("Seeded search over pool schedules (worker count, chunking, chunk->worker assignment, completion order, cpu_count for n_procs=None) under a simulated process pool with pickled task isolation; every schedule's result is compared with the sequential run_contingency and with the other schedules.",
            "The pool is a stub (in-process workers; pickling preserved, separate module globals and real scheduling not). " + COMMON_NOTE,
            "deterministic simulation: simulated process pool with planned schedules, sequential analysis as reference model",
            "DESIGN.md section 4, C15"),
    "C20": ("Narrow claim: seeded histories with save/load points through every format and stream flavour; the loaded replica is compared with the live net at once and then follows the same subsequent operations (every later calculation must agree); saves whose stream raises ENOSPC/EIO from write or close must raise, leave the live net untouched and be followed by a clean round trip. The value-generation half of the property (odd strings, tiny floats, nullable dtypes) is input generation and is not claimed.",
            "Excel/SQLite: element tables only, printed values; null-likes equal; JSON floats 1e-14. Stream fault dimension is thin by nature (json/pickle need full reads/writes by contract). " + COMMON_NOTE,
            "deterministic simulation: snapshot/restore inside seeded histories with a replica-divergence oracle; simulated streams and wrapped open() with injected write/close errors",
            "DESIGN.md section 4, C20"),
    "C22": ("Seeded search over histories of creation and toolbox edits (drop_*, fuse_buses, select_subnet, merge_nets, reindex_*, create_continuous_*_index, replace_*) on nets that carry one reference of every kind; a referential-integrity invariant (bus references, switch targets, measurements, costs, group members incl. reference columns, controller targets, characteristic ids, result-table indices) is evaluated after every edit that returns.",
            "History search with a step-wise invariant, no fault dimension (the property speaks of edits that complete; rejected edits are rolled back). Open known findings: controller targets after replace_* and drop_elements_at_buses. " + COMMON_NOTE,
            "deterministic simulation (history dimension only): seeded edit sequences with a referential-integrity invariant after every step",
            "DESIGN.md section 4, C22"),
    "C27": ("Seeded search over histories of group operations (create, attach incl. mismatching reference columns, detach, drop, reference-column changes, setters, result sums) interleaved with element drops, creations and re-indexing of elements and groups, compared after every step with an abstract set model.",
            "History search against a reference model, no fault dimension; unique element names. " + COMMON_NOTE,
            "deterministic simulation (history dimension only): seeded operation sequences against an executable set model",
            "DESIGN.md section 4, C27"),
    "C30": ("Seeded search over interleavings of several Diagnostic clients (instantiation, registration, diagnose_network with options, report) in one process; every call is checked against a per-instance model, a snapshot of the diagnosed net, and - for a sampled subset - the same call as the only call of a fresh forked process.",
            "The fresh-process oracle is sampled (about 1 in 3 calls, at least one per episode) because fork is expensive under load in this VM; known module-level state is reset at episode start. " + COMMON_NOTE,
            "deterministic simulation: seeded client interleaving over shared process state, reference model + fresh-process isolation oracle",
            "DESIGN.md section 4, C30"),
    "C34": ("Seeded search over histories of stored/overwritten user options, explicitly passed runpp arguments (incl. default-valued and positional ones), failing runs and save/load, compared key by key with a precedence model.",
            "Only option keys that are plain copies of the argument are compared. One open known finding (passed value equal to the signature default). " + COMMON_NOTE,
            "deterministic simulation: seeded option/run/fault histories against an executable precedence model",
            "DESIGN.md section 4, C34"),
}


def main():
    base = json.load(open("/root/.vp/BASELINE.json"))["cmd"] if os.path.exists("/root/.vp/BASELINE.json") else \
        json.load(open(os.path.join(HERE, "MANIFEST.json")))["hooks"]["baseline_off_cmd"]
    na = {k: v for k, v in NA.items() if k not in CHECKS}
    man = {"version": 1, "setup_cmd": "./setup.sh",
           "hooks": {"guard": "E2NIEE_PANDAPOWER_VERIF",
                     "enable": "no source hooks: every seam is an existing parameter, a module attribute replaced from outside, or sys.settrace; checks import the editable install of /repo's working tree",
                     "baseline_off_cmd": base, "source_commits": [], "add_only": True},
           "engines": [{"name": "ppsim", "path": "ppsim/", "serves_properties": sorted(CHECKS),
                        "kind_free_text": "from-scratch deterministic simulator for pandapower: seeded op-list episodes, sys.settrace crash-point injection with AST-derived recovery-extent exclusion, simulated pool/clock/streams, reference-model oracles, ddmin shrinking, replay files, 16 long-lived lanes"}],
           "checks": [], "notes": "Technique: deterministic simulation with fault injection. Properties that are pure functions of one input are listed under not_applicable (DESIGN.md section 2).",
           "not_applicable": [{"property_id": k, "reason": v} for k, v in sorted(na.items())]}
    for pid, (text, note, tech, ref) in sorted(CHECKS.items()):
        man["checks"].append({"property_id": pid, "quick_cmd": f"./check {pid} --tier quick",
                              "thorough_cmd": f"./check {pid} --tier thorough", "evidence_file": f"evidence/{pid}.json",
                              "replay_cmd_template": "./check replay {path}", "engine": "ppsim",
                              "level_claimed": {"category": "exploration", "text": text, "design_ref": ref},
                              "level_note": note, "technique": tech})
    json.dump(man, open(os.path.join(HERE, "MANIFEST.json"), "w"), indent=1)
    print("MANIFEST.json:", len(man["checks"]), "checks,", len(man["not_applicable"]), "not applicable")


if __name__ == "__main__":
    main()
