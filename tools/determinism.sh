#!/bin/bash
# Determinism at scale: every check is run twice with the same VERIF_SEED (second time with another
# lane count and another PYTHONHASHSEED); the digest over all episode digests must be identical.
cd "$(dirname "$0")/.."
seed=${1:-7}
shift
props=${@:-C08 C09 C12 C13 C14 C15 C20 C22 C27 C30 C34}
rc=0
for p in $props; do
  VERIF_SEED=$seed ./check $p --no-selftest --wall 3000 > /tmp/det_a_$p.log 2>&1
  a=$(python3 -c "import json;print(json.load(open('evidence/$p.json'))['coverage']['run_digest'], json.load(open('evidence/$p.json'))['coverage']['evaluations'])")
  VERIF_SEED=$seed PPSIM_LANES=7 PYTHONHASHSEED=3 ./check $p --no-selftest --wall 3000 > /tmp/det_b_$p.log 2>&1
  b=$(python3 -c "import json;print(json.load(open('evidence/$p.json'))['coverage']['run_digest'], json.load(open('evidence/$p.json'))['coverage']['evaluations'])")
  if [ "$a" == "$b" ]; then echo "$p deterministic: $a"; else echo "$p NONDETERMINISTIC: $a vs $b"; rc=1; fi
done
exit $rc
