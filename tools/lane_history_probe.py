#!/venv/bin/python
"""Determinism at scale: run ALL episodes of a check's quick budget twice, with two different lane layouts (different
numbers of long-lived lanes, reversed dispatch order), and report every episode whose digest differs together with the
first differing log line.  A difference means an episode's outcome depends on what ran before it in its lane process
(state leaking across episodes) or on something outside the seed.

usage: tools/lane_history_probe.py C34 [verif_seed=0] [n_episodes=budget]"""
import os, sys, json
if os.environ.get("PYTHONHASHSEED") != "0":
    os.environ["PYTHONHASHSEED"] = "0"
    for k in ("OMP_NUM_THREADS", "OPENBLAS_NUM_THREADS", "MKL_NUM_THREADS", "NUMEXPR_NUM_THREADS"):
        os.environ[k] = "1"
    os.execv(sys.executable, [sys.executable] + sys.argv)
VERIF = os.path.dirname(os.path.dirname(os.path.abspath(__file__)))
sys.path.insert(0, VERIF)
sys.path.insert(0, os.environ.get("PPSIM_REPO", "/repo"))
from ppsim import core, tracer

prop = sys.argv[1]
seed = int(sys.argv[2]) if len(sys.argv) > 2 else 0
module = core.load_module(prop)
n = int(sys.argv[3]) if len(sys.argv) > 3 else module.BUDGET["quick"]
tracer.build_recovery_index()
core._quiet(module.warm)
master = core.master_seed(prop, "quick", seed)
runs = []
for lanes_n, order in ((getattr(module, "LANES", 16), 1), (max(2, getattr(module, "LANES", 16) // 3), -1)):
    lanes = core.Lanes(module, n=lanes_n)
    try:
        res, _ = lanes.map_episodes(prop, master, "quick", list(range(n))[::order], keep_log=True)
    finally:
        lanes.close()
    runs.append({o["idx"]: o for o in res})
bad = [i for i in sorted(runs[0]) if runs[0][i].get("digest") != runs[1].get(i, {}).get("digest")]
print(f"{prop} seed {seed}: {n} episodes, {len(bad)} with differing digests: {bad[:20]}")
for i in bad[:5]:
    a, b = runs[0][i].get("log") or [], runs[1][i].get("log") or []
    for j, (x, y) in enumerate(zip(a, b)):
        if x != y:
            print(f"  episode {i} first difference at log line {j}:\n    A: {json.dumps(x)[:400]}\n    B: {json.dumps(y)[:400]}")
            break
    else:
        print(f"  episode {i}: logs have different lengths {len(a)} vs {len(b)}; status {runs[0][i].get('status')} vs "
              f"{runs[1][i].get('status')}; {str(runs[0][i].get('error'))[-300:]} | {str(runs[1][i].get('error'))[-300:]}")
sys.exit(1 if bad else 0)
