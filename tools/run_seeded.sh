#!/bin/bash
# Sensitivity regression: apply every kept property-breaking change (seeded/<id>/patch.diff) to a scratch worktree of
# /repo HEAD (outside /repo and /verif, removed afterwards), run the property's quick check against it and report
# whether the check raises a VIOLATION.  Nothing is applied to /repo itself.
# usage: tools/run_seeded.sh [id ...]       (default: all of seeded/*)
cd "$(dirname "$0")/.." || exit 2
WT=${PPSIM_SCRATCH:-/tmp/ppsim_seeded_wt}
git -C /repo worktree remove --force "$WT" 2>/dev/null
git -C /repo worktree add -q --detach "$WT" HEAD || exit 2
trap 'git -C /repo worktree remove --force "$WT"; git -C /repo worktree prune' EXIT
ids=("$@"); [ ${#ids[@]} -eq 0 ] && ids=($(ls seeded))
miss=0
for id in "${ids[@]}"; do
  prop=${id%%-*}
  git -C "$WT" reset -q --hard HEAD
  if ! git -C "$WT" apply "$PWD/seeded/$id/patch.diff" 2>/dev/null; then
    if ! git -C "$WT" apply --3way "$PWD/seeded/$id/patch.diff" >/dev/null 2>&1; then echo "$id: PATCH-DOES-NOT-APPLY"; continue; fi
  fi
  out=$(PPSIM_REPO="$WT" ./check "$prop" --no-selftest 2>&1); rc=$?
  nsig=$(echo "$out" | grep -c "^VIOLATION")
  if grep -q status_on_current_tree "seeded/$id/meta.json" 2>/dev/null && [ $rc -eq 0 ]; then echo "$id: NEUTRALISED (see meta.json: equivalent on the repaired tree)"
  elif [ $rc -eq 1 ] && [ "$nsig" -gt 0 ]; then echo "$id: CAUGHT ($nsig violation line(s)) $(echo "$out" | grep -m1 'signature:' | cut -c1-150)"
  else echo "$id: MISSED (exit $rc)"; miss=1; fi
done
exit $miss
