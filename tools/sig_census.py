#!/venv/bin/python
"""Census of violation signatures of a check's quick budget without minimisation or replay (development aid for
triage when a workload change surfaces many signatures at once).

usage: tools/sig_census.py C22 [verif_seed=0] [n_episodes=budget]"""
import os, sys, json, collections
if os.environ.get("PYTHONHASHSEED") != "0":
    os.environ["PYTHONHASHSEED"] = "0"
    for k in ("OMP_NUM_THREADS", "OPENBLAS_NUM_THREADS", "MKL_NUM_THREADS", "NUMEXPR_NUM_THREADS"):
        os.environ[k] = "1"
    os.execv(sys.executable, [sys.executable] + sys.argv)
VERIF = os.path.dirname(os.path.dirname(os.path.abspath(__file__)))
sys.path.insert(0, VERIF)
sys.path.insert(0, os.environ.get("PPSIM_REPO", "/repo"))
from ppsim import core, tracer
import logging
logging.disable(logging.CRITICAL)
prop = sys.argv[1]
seed = int(sys.argv[2]) if len(sys.argv) > 2 else 0
module = core.load_module(prop)
n = int(sys.argv[3]) if len(sys.argv) > 3 else module.BUDGET["quick"]
tracer.build_recovery_index()
core._quiet(module.warm)
master = core.master_seed(prop, "quick", seed)
lanes = core.Lanes(module, n=getattr(module, "LANES", 16))
try:
    res, _ = lanes.map_episodes(prop, master, "quick", list(range(n)))
finally:
    lanes.close()
known_open, _ = core.load_known(prop)
cnt, first, detail = collections.Counter(), {}, {}
for o in res:
    for v in o.get("violations", []):
        cnt[v["sig"]] += 1
        first.setdefault(v["sig"], o["idx"])
        detail.setdefault(v["sig"], v["detail"])
for sig, c in sorted(cnt.items()):
    print(f"{'KNOWN ' if sig in known_open else '      '}{c:5d}  ep{first[sig]:<5d} {sig}\n              {detail[sig][:int(os.environ.get("CENSUS_WIDTH", "230"))]}")
print(len(cnt), "signatures;", sum(1 for o in res if o['status'] != 'ok'), "harness errors")
