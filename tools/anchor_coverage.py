#!/venv/bin/python
"""Reach measurement: which lines of a property's anchor files do the first N seeded episodes of its check execute?

usage: COVERAGE_CORE=sysmon tools/anchor_coverage.py C12 [N=150] [extra files under pandapower/ ...]

Runs the episodes in this process (one lane, no fork) under coverage.py restricted to the anchor files named in
properties.jsonl (plus extras) and prints, per file, the executed share and the missing line ranges.  A development
aid (it decides nothing): blind spots in the workload show up as never-executed branches of the anchored code."""
import json, os, sys
os.environ.setdefault("COVERAGE_CORE", "sysmon")
VERIF = os.path.dirname(os.path.dirname(os.path.abspath(__file__)))
sys.path.insert(0, VERIF)
REPO = os.environ.get("PPSIM_REPO", "/repo")
sys.path.insert(0, REPO)
import coverage
import logging
logging.disable(logging.CRITICAL)

prop = sys.argv[1]
n = int(sys.argv[2]) if len(sys.argv) > 2 and sys.argv[2].isdigit() else 150
extra = [a for a in sys.argv[2:] if not a.isdigit()]
anchors = []
for line in open(os.path.join(VERIF, "properties.jsonl")):
    p = json.loads(line)
    if p["id"] == prop:
        anchors = list(p["anchors"]["files"])
files = [os.path.join(REPO, f) for f in anchors + extra]
from ppsim import core, tracer
module = core.load_module(prop)
tracer.build_recovery_index()
core._quiet(module.warm)
cov = coverage.Coverage(include=files, data_file=None)
master = core.master_seed(prop, "quick", int(os.environ.get("VERIF_SEED", "0")))
cov.start()
try:
    for idx in range(n):
        core._quiet(lambda: core._do_task(module, ("gen", prop, master, "quick", idx, False)))
finally:
    cov.stop()
for f in files:
    try:
        _, stmts, _, missing, fmt = cov.analysis2(f)
    except Exception as e:
        print(f, "not measured:", e)
        continue
    src = open(f).read().split("\n")
    # module-level statements and def/class headers ran at import time (before the measurement started)
    body = lambda ln: src[ln - 1][:1] in (" ", "\t") and not src[ln - 1].strip().startswith(("def ", "class ", "@"))
    stmts = [ln for ln in stmts if body(ln)]
    missing = [ln for ln in missing if body(ln)]
    done = len(stmts) - len(missing)
    print(f"{os.path.relpath(f, REPO)}: {done}/{len(stmts)} body statements ({100.0 * done / max(1, len(stmts)):.0f}%)")
    for ln in missing:
        print(f"   {ln:5d}: {src[ln - 1].strip()[:110]}")
