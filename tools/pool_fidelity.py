#!/venv/bin/python
"""Development aid (not a deciding step): run a few nets through the REAL multiprocessing.Pool and
through SimPool and require identical results of run_contingency_parallel (DESIGN C15, stub fidelity)."""
import copy
import os
import sys
import warnings
import logging

warnings.filterwarnings("ignore")
logging.disable(logging.CRITICAL)
sys.path.insert(0, os.path.dirname(os.path.dirname(os.path.abspath(__file__))))
import numpy as np
from ppsim import nets, simpool, oracles
import pandapower.contingency.contingency_parallel as cp


def main():
    bad = 0
    for name, scale in (("case9", 1.0), ("feeder_t3w", 1.5), ("case14", 2.2)):
        net = nets.get(name)
        net.load["scaling"] = scale
        for et in ("line", "trafo", "trafo3w"):
            if len(net[et]):
                net[et]["max_loading_percent"] = 60.
        cases = {"line": {"index": list(net.line.index[:5])}}
        if len(net.trafo):
            cases["trafo"] = {"index": list(net.trafo.index[:1])}
        for n in (2, 3):
            a = cp.run_contingency_parallel(copy.deepcopy(net), copy.deepcopy(cases), n_procs=n)     # real pool
            sched = simpool.Schedule({"n_procs": n, "complete": [3, 1, 2, 0]})
            undo = simpool.install(cp, sched)
            try:
                b = cp.run_contingency_parallel(copy.deepcopy(net), copy.deepcopy(cases), n_procs=n)  # stub
            finally:
                undo()
            same = set(a) == set(b)
            for t in a:
                for k in a[t]:
                    x, y = np.asarray(a[t][k]), np.asarray(b[t][k])
                    if x.dtype == object:
                        same &= list(x) == list(y)
                    else:
                        same &= oracles.compare_arrays(x.astype(float), y.astype(float), 1e-9, 1e-9) is None
            print(f"{name} n_procs={n}: real pool == SimPool: {same}")
            bad += not same
    return 1 if bad else 0


if __name__ == "__main__":
    sys.exit(main())
