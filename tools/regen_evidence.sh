#!/bin/bash
# Regenerates evidence/<id>.json for every claimed property by running the registered quick command against /repo
# itself (never a scratch tree), validates each file against the evidence schema and prints a summary.
cd "$(dirname "$0")/.." || exit 2
unset PPSIM_REPO
./setup.sh >/dev/null 2>&1
rc=0
for p in $(/venv/bin/python -c "import json;print(' '.join(c['property_id'] for c in json.load(open('MANIFEST.json'))['checks']))"); do
  out=$(VERIF_SEED=${VERIF_SEED:-0} ./check "$p" --tier quick 2>&1); r=$?
  echo "$p exit=$r $(echo "$out" | grep '^DONE')"
  echo "$out" | grep "^VIOLATION\|NONDET\|HARNESS-ERROR"
  [ $r -ne 0 ] && rc=1
done
python3-vt - <<'PY'
import json, glob, jsonschema
schema = json.load(open('/root/.vp/EVIDENCE.schema.json'))
for f in sorted(glob.glob('evidence/*.json')):
    jsonschema.validate(json.load(open(f)), schema)
print("evidence files valid:", len(glob.glob('evidence/*.json')))
PY
exit $rc
