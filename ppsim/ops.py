"""Shared op interpreter: build / edit / calculate ops with abstract arguments.

Every integer argument that selects something is an abstract choice resolved `mod` the sorted
candidates at execution time; an op with no candidates is a recorded no-op.  So every
subsequence of an op list is itself executable (what delta debugging needs).
"""
import numpy as np
import pandas as pd

from . import nets

LINE_STD = ["NA2XS2Y 1x185 RM/25 12/20 kV", "NA2XS2Y 1x240 RM/25 12/20 kV", "243-AL1/39-ST1A 110.0",
            "NAYY 4x150 SE", "149-AL1/24-ST1A 20.0"]


def pick(cands, k):
    cands = sorted(cands)
    if not cands:
        return None
    return cands[int(k) % len(cands)]


def pick_row(net, table, k):
    if table not in net or len(net[table]) == 0:
        return None
    return pick(net[table].index.tolist(), k)


class NoOp(Exception):
    pass


def _need(x):
    if x is None:
        raise NoOp()
    return x


# ---------------------------------------------------------------------------------------------
# generation helpers (used by property generators; all randomness is consumed here)
# ---------------------------------------------------------------------------------------------
def gen_create(rng, kinds=None):
    kinds = kinds or ["load", "sgen", "gen", "line", "switch_b", "switch_l", "shunt", "storage", "dcline",
                      "bus", "ward", "impedance"]
    kind = rng.choice(kinds)
    op = {"op": "create", "et": kind, "a": rng.randrange(1000), "b": rng.randrange(1000)}
    if rng.random() < 0.25:
        op["gap"] = rng.randint(1, 7)       # explicit index = max index + 1 + gap (non-contiguous tables)
    if kind in ("load", "sgen", "storage"):
        op.update(p=round(rng.uniform(0.05, 1.5), 3), q=round(rng.uniform(-0.2, 0.4), 3))
        if kind == "load" and rng.random() < 0.25:
            op["zip"] = [rng.choice([0, 20, 40]), rng.choice([0, 20, 40]), rng.choice([0, 20]), rng.choice([0, 20])]
    elif kind == "gen":
        op.update(p=round(rng.uniform(0.1, 1.0), 3), vm=round(rng.uniform(0.99, 1.03), 3),
                  slack=rng.random() < 0.15, qlim=rng.random() < 0.5)
    elif kind == "line":
        op.update(std=rng.randrange(len(LINE_STD)), len=round(rng.uniform(0.3, 3.0), 2),
                  parallel=rng.choice([1, 1, 1, 2]))
    elif kind.startswith("switch"):
        op.update(closed=rng.random() < 0.8, z=rng.choice([0, 0, 0.05]))
    elif kind == "shunt":
        op.update(q=round(rng.uniform(-0.3, 0.3), 3))
    elif kind == "dcline":
        op.update(p=round(rng.uniform(-0.8, 0.8), 3), loss=round(rng.uniform(0, 3), 2),
                  in_service=rng.random() < 0.85)
    elif kind == "bus":
        op.update(line_len=round(rng.uniform(0.3, 2.0), 2), std=rng.randrange(len(LINE_STD)))
    elif kind == "ward":
        op.update(p=round(rng.uniform(0, 0.3), 3), q=round(rng.uniform(0, 0.1), 3))
    elif kind == "impedance":
        op.update(r=round(rng.uniform(0.01, 0.05), 4), x=round(rng.uniform(0.02, 0.1), 4))
    return op


SET_TARGETS = [("load", "p_mw", "mul"), ("load", "q_mvar", "mul"), ("load", "scaling", "mul"),
               ("sgen", "p_mw", "mul"), ("sgen", "scaling", "mul"), ("gen", "p_mw", "mul"),
               ("gen", "vm_pu", "vm"), ("ext_grid", "vm_pu", "vm"), ("trafo", "tap_pos", "tap"),
               ("trafo3w", "tap_pos", "tap"), ("line", "length_km", "mul"), ("dcline", "p_mw", "mul"),
               ("shunt", "q_mvar", "mul"), ("storage", "p_mw", "mul")]
TOGGLE_TARGETS = [("line", "in_service"), ("trafo", "in_service"), ("load", "in_service"),
                  ("sgen", "in_service"), ("gen", "in_service"), ("switch", "closed"), ("bus", "in_service"),
                  ("dcline", "in_service"), ("ext_grid", "in_service"), ("trafo3w", "in_service")]


def gen_set(rng):
    t, c, how = rng.choice(SET_TARGETS)
    op = {"op": "set", "table": t, "row": rng.randrange(1000), "col": c}
    if how == "mul":
        op["mul"] = round(rng.choice([0.5, 0.8, 0.9, 1.1, 1.2, 1.5, -1.0 if c == "p_mw" and t == "dcline" else 1.3]), 3)
    elif how == "vm":
        op["val"] = round(rng.uniform(0.98, 1.04), 3)
    elif how == "tap":
        op["tap"] = rng.choice([-2, -1, 0, 1, 2])
    return op


def gen_toggle(rng, targets=None):
    t, c = rng.choice(targets or TOGGLE_TARGETS)
    return {"op": "toggle", "table": t, "row": rng.randrange(1000), "col": c}


# ---------------------------------------------------------------------------------------------
# execution
# ---------------------------------------------------------------------------------------------
def apply_template(op):
    return nets.get(op["name"])


def _same_level_bus(net, bus, k):
    vn = net.bus.at[bus, "vn_kv"]
    c = [b for b in net.bus.index if net.bus.at[b, "vn_kv"] == vn and b != bus]
    return pick(c, k)


TABLE_OF = {"switch_b": "switch", "switch_l": "switch", "switch_t": "switch", "switch_t3": "switch"}


def apply_create(net, op):
    import pandapower as pp
    et = op["et"]
    bus = _need(pick(net.bus.index.tolist(), op["a"]))
    ix = {}
    if op.get("gap") and et != "bus":
        tab = TABLE_OF.get(et, et)
        if tab in net:
            ix = {"index": int(net[tab].index.max() + 1 + op["gap"]) if len(net[tab]) else int(op["gap"])}
            if op["gap"] % 3 == 0 and len(net[tab]):
                # an unused index BELOW the current maximum, if there is one: the table index becomes unsorted
                used = set(int(x) for x in net[tab].index)
                free = [x for x in range(int(max(used))) if x not in used]
                if free:
                    ix = {"index": free[op["gap"] % len(free)]}
    return _apply_create(net, op, et, bus, ix)


def _apply_create(net, op, et, bus, ix):
    import pandapower as pp
    if et == "load":
        kw = {}
        if "zip" in op:
            z = op["zip"]
            kw = dict(const_z_p_percent=z[0], const_i_p_percent=z[1], const_z_q_percent=z[2],
                      const_i_q_percent=z[3])
        return pp.create_load(net, bus, op["p"], op["q"], **kw, **ix)
    if et == "sgen":
        return pp.create_sgen(net, bus, op["p"], op["q"], **ix)
    if et == "storage":
        return pp.create_storage(net, bus, op["p"], max_e_mwh=10., q_mvar=op["q"], **ix)
    if et == "gen":
        kw = dict(min_q_mvar=-1., max_q_mvar=1.) if op.get("qlim") else {}
        return pp.create_gen(net, bus, op["p"], vm_pu=op["vm"], slack=bool(op.get("slack")),
                             min_p_mw=0., max_p_mw=5., **kw, **ix)
    if et == "line":
        to = _need(_same_level_bus(net, bus, op["b"]))
        return pp.create_line(net, bus, to, op["len"], LINE_STD[op["std"] % len(LINE_STD)],
                              parallel=op.get("parallel", 1), max_loading_percent=100., **ix)
    if et == "bus":
        nb = pp.create_bus(net, float(net.bus.at[bus, "vn_kv"]))
        pp.create_line(net, bus, nb, op["line_len"], LINE_STD[op["std"] % len(LINE_STD)],
                       max_loading_percent=100.)
        return nb
    if et == "switch_b":
        to = _need(_same_level_bus(net, bus, op["b"]))
        return pp.create_switch(net, bus, to, "b", closed=op["closed"], z_ohm=op.get("z", 0))
    if et == "switch_l":
        lines = [l for l in net.line.index]
        l = _need(pick(lines, op["b"]))
        side = net.line.at[l, "from_bus"] if op["a"] % 2 == 0 else net.line.at[l, "to_bus"]
        return pp.create_switch(net, int(side), l, "l", closed=op["closed"], z_ohm=op.get("z", 0))
    if et == "switch_t":
        t = _need(pick(net.trafo.index.tolist(), op["b"]))
        side = net.trafo.at[t, "hv_bus"] if op["a"] % 2 == 0 else net.trafo.at[t, "lv_bus"]
        return pp.create_switch(net, int(side), t, "t", closed=op["closed"])
    if et == "switch_t3":
        t = _need(pick(net.trafo3w.index.tolist(), op["b"]))
        side = net.trafo3w.at[t, ["hv_bus", "mv_bus", "lv_bus"][op["a"] % 3]]
        return pp.create_switch(net, int(side), t, "t3", closed=op["closed"])
    if et == "shunt":
        return pp.create_shunt(net, bus, op["q"], **ix)
    if et == "ward":
        return pp.create_ward(net, bus, op["p"], op["q"], op["p"] / 2, op["q"] / 2)
    if et == "xward":
        return pp.create_xward(net, bus, op["p"], op["q"], op["p"] / 2, op["q"] / 2, 0.1, 0.3, 1.0)
    if et == "impedance":
        to = _need(_same_level_bus(net, bus, op["b"]))
        return pp.create_impedance(net, bus, to, op["r"], op["x"], sn_mva=10.)
    if et == "dcline":
        to = _need(pick([b for b in net.bus.index if b != bus], op["b"]))
        return pp.create_dcline(net, bus, to, p_mw=op["p"], loss_percent=op["loss"], loss_mw=0.01,
                                vm_from_pu=1.0, vm_to_pu=1.0, max_p_mw=2., min_q_from_mvar=-1.,
                                max_q_from_mvar=1., min_q_to_mvar=-1., max_q_to_mvar=1.,
                                in_service=op.get("in_service", True), **ix)
    raise NoOp()


def apply_set(net, op):
    t, c = op["table"], op["col"]
    row = _need(pick_row(net, t, op["row"]))
    if c not in net[t].columns:
        raise NoOp()
    if "mul" in op:
        net[t].at[row, c] = float(net[t].at[row, c]) * op["mul"]
    elif "tap" in op:
        lo, hi = net[t].at[row, "tap_min"], net[t].at[row, "tap_max"]
        v = op["tap"]
        if not (pd.isna(lo) or pd.isna(hi)):
            v = int(min(max(v, lo), hi))
        if pd.isna(net[t].at[row, "tap_pos"]):
            raise NoOp()
        net[t].at[row, c] = v
    else:
        net[t].at[row, c] = op["val"]
    return row


def apply_toggle(net, op):
    t, c = op["table"], op["col"]
    row = _need(pick_row(net, t, op["row"]))
    net[t].at[row, c] = not bool(net[t].at[row, c])
    return row


def gen_drop(rng, kinds=("gen", "load", "sgen", "line", "shunt", "storage")):
    return {"op": "drop_el", "et": rng.choice(list(kinds)), "row": rng.randrange(1000)}


def apply_drop(net, op):
    import pandapower as pp
    et = op["et"]
    row = _need(pick_row(net, et, op["row"]))
    if len(net[et]) <= 1 and et in ("line",):
        raise NoOp()
    if et == "line":
        pp.drop_lines(net, [row])
    else:
        pp.drop_elements(net, et, [row])
    return row


def apply_basic(net, op):
    """build/edit ops -> ('ok', info) | ('noop', None) | ('raised', exc)"""
    try:
        kind = op["op"]
        if kind == "create":
            return "ok", apply_create(net, op)
        if kind == "set":
            return "ok", apply_set(net, op)
        if kind == "toggle":
            return "ok", apply_toggle(net, op)
        if kind == "drop_el":
            return "ok", apply_drop(net, op)
        return "noop", None
    except NoOp:
        return "noop", None
    except Exception as e:  # creation functions reject some argument combinations: recorded
        return "raised", e


# ---------------------------------------------------------------------------------------------
# calculations
# ---------------------------------------------------------------------------------------------
def contingency_cases(net, spec):
    """spec = {"line": [abstract ints], "trafo": [...], "trafo3w": [...]}"""
    cases = {}
    for et in ("line", "trafo", "trafo3w"):
        ks = spec.get(et) or []
        if et in net and len(net[et]) and ks:
            idx = []
            for k in ks:
                i = pick(net[et].index.tolist(), k)
                if i not in idx:
                    idx.append(i)
            cases[et] = {"index": idx}
    return cases


def run_calc(net, kind, kw, extra=None):
    """issue one calculation through the public API"""
    import pandapower as pp
    kw = dict(kw or {})
    if kind == "runpp":
        return pp.runpp(net, **kw)
    if kind == "rundcpp":
        return pp.rundcpp(net, **kw)
    if kind == "runopp":
        return pp.runopp(net, **kw)
    if kind == "rundcopp":
        return pp.rundcopp(net, **kw)
    if kind == "runpp_3ph":
        return pp.runpp_3ph(net, **kw)
    if kind == "calc_sc":
        import pandapower.shortcircuit as sc
        form = kw.pop("bus_form", "list")
        if "bus_k" in kw:
            ks = kw.pop("bus_k")
            bus = sorted({pick(net.bus.index.tolist(), k) for k in ks})
            import numpy as _np
            import pandas as _pd
            kw["bus"] = _np.array(bus) if form == "array" else _pd.Index(bus) if form == "index" else \
                int(bus[0]) if form == "int" else bus
        if kw.get("use_pre_fault_voltage"):
            # (needs the line end temperature only for case "min"; pre-fault voltages come from the result tables)
            kw["case"] = "max"
        return sc.calc_sc(net, **kw)

    if kind == "estimate":
        from pandapower.estimation import estimate
        return estimate(net, **kw)
    if kind == "run_contingency":
        from pandapower.contingency import run_contingency
        cases = contingency_cases(net, kw.pop("cases"))
        return run_contingency(net, cases, **kw)
    if kind == "run_contingency_ls2g":
        from pandapower.contingency import run_contingency_ls2g
        cases = contingency_cases(net, kw.pop("cases"))
        return run_contingency_ls2g(net, cases, **kw)
    if kind == "run_contingency_parallel":
        from pandapower.contingency.contingency_parallel import run_contingency_parallel
        cases = contingency_cases(net, kw.pop("cases"))
        return run_contingency_parallel(net, cases, **kw)
    raise ValueError(kind)


def overlapping_lookup(idx, mode, a=0, b=0):
    """reindex lookups whose new indices overlap the old ones (the mapping is simultaneous, not sequential):
    every element one up, two indices swapped, all indices rotated; None for mode 'above' / too few elements"""
    idx = list(idx)
    if mode == "shift_all" and idx:
        return {old: old + 1 for old in idx}
    if mode == "swap" and len(idx) >= 2:
        x = idx[a % len(idx)]
        y = idx[(a + 1 + b % (len(idx) - 1)) % len(idx)]
        return {x: y, y: x}
    if mode == "rotate" and len(idx) >= 3:
        return {idx[j]: idx[(j + 1) % len(idx)] for j in range(len(idx))}
    return None
