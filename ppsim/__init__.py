"""ppsim -- deterministic simulation with fault injection for pandapower.

One seeded history of public-API calls against one or a few net objects, with the simulator
owning every seam (which exception is raised where, which controller event or worker completes
next, what the clock says, what the stream does), checked step by step against small executable
reference models.  See /verif/DESIGN.md.
"""
import os

REPO = os.environ.get("PPSIM_REPO", "/repo")
VERIF = os.path.dirname(os.path.dirname(os.path.abspath(__file__)))
