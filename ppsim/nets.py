"""Network templates (materialised once in the warm parent, deep-copied in the episode child)."""
import copy

import numpy as np
import pandas as pd

TEMPLATES = {}


def _feeder(dcline=False, taptable=False, t3w=False, sc=True, costs=False):
    import pandapower as pp
    net = pp.create_empty_network()
    b0 = pp.create_bus(net, 110., name="hv")
    b1 = pp.create_bus(net, 20., name="mv1")
    b2 = pp.create_bus(net, 20., name="mv2")
    b3 = pp.create_bus(net, 20., name="mv3")
    b4 = pp.create_bus(net, 20., name="mv4")
    b5 = pp.create_bus(net, 0.4, name="lv1")
    pp.create_ext_grid(net, b0, vm_pu=1.02, s_sc_max_mva=5000., s_sc_min_mva=3000., rx_max=0.1, rx_min=0.1,
                       r0x0_max=0.1, x0x_max=1.0, r0x0_min=0.1, x0x_min=1.0,
                       max_p_mw=200, min_p_mw=-200, max_q_mvar=200, min_q_mvar=-200)
    pp.create_transformer(net, b0, b1, "25 MVA 110/20 kV", tap_pos=0)
    pp.create_transformer(net, b2, b5, "0.4 MVA 20/0.4 kV", tap_pos=0)
    for f, t, l in ((b1, b2, 2.0), (b2, b3, 1.5), (b3, b4, 1.2), (b1, b4, 2.5)):
        pp.create_line(net, f, t, l, "NA2XS2Y 1x185 RM/25 12/20 kV", max_loading_percent=100.)
    net.line["endtemp_degree"] = 80.
    pp.create_load(net, b2, 2.0, 0.4)
    pp.create_load(net, b3, 1.5, 0.3)
    pp.create_load(net, b5, 0.1, 0.02)
    pp.create_sgen(net, b4, 1.0, 0.1, sn_mva=1.2, k=1.2, generator_type="current_source")
    pp.create_gen(net, b3, 1.2, vm_pu=1.01, sn_mva=3., vn_kv=20., xdss_pu=0.2, rdss_ohm=0.1, cos_phi=0.9,
                  min_q_mvar=-2., max_q_mvar=2., min_p_mw=0., max_p_mw=3., pg_percent=0., controllable=True)
    if sc:
        net.trafo["vk0_percent"] = net.trafo.vk_percent
        net.trafo["vkr0_percent"] = net.trafo.vkr_percent
        net.trafo["mag0_percent"] = 100.
        net.trafo["mag0_rx"] = 0.
        net.trafo["si0_hv_partial"] = 0.9
        net.trafo["vector_group"] = ["YNyn", "Dyn"]
        net.line["r0_ohm_per_km"] = net.line.r_ohm_per_km * 4
        net.line["x0_ohm_per_km"] = net.line.x_ohm_per_km * 4
        net.line["c0_nf_per_km"] = net.line.c_nf_per_km
    if dcline:
        pp.create_dcline(net, b2, b4, p_mw=0.5, loss_percent=1.2, loss_mw=0.01, vm_from_pu=1.01, vm_to_pu=1.0,
                         max_p_mw=2., min_q_from_mvar=-1., max_q_from_mvar=1., min_q_to_mvar=-1.,
                         max_q_to_mvar=1.)
    if taptable:
        net["trafo_characteristic_table"] = pd.DataFrame(
            {'id_characteristic': [0] * 5 + [1] * 5, 'step': [-2, -1, 0, 1, 2] * 2,
             'voltage_ratio': [0.95, 0.975, 1, 1.025, 1.05] * 2, 'angle_deg': [0] * 10,
             'vk_percent': [11.5, 11.8, 12.2, 12.4, 12.6, 5.5, 5.8, 6.1, 6.2, 6.5],
             'vkr_percent': [0.40, 0.41, 0.42, 0.43, 0.44, 1.4, 1.42, 1.44, 1.46, 1.48],
             'vk_hv_percent': np.nan, 'vkr_hv_percent': np.nan, 'vk_mv_percent': np.nan,
             'vkr_mv_percent': np.nan, 'vk_lv_percent': np.nan, 'vkr_lv_percent': np.nan})
        net.trafo["id_characteristic_table"] = pd.array([0, 1], dtype="Int64")
        net.trafo["tap_dependency_table"] = True
        net.trafo["tap_min"] = -2
        net.trafo["tap_max"] = 2
    if t3w:
        b6 = pp.create_bus(net, 10., name="mv10")
        b7 = pp.create_bus(net, 20., name="mv5")
        pp.create_transformer3w(net, b0, b7, b6, "63/25/38 MVA 110/20/10 kV", tap_pos=0)
        pp.create_load(net, b6, 3.0, 0.5)
        b8 = pp.create_bus(net, 20., name="mv6")
        pp.create_line(net, b7, b8, 3.0, "NA2XS2Y 1x185 RM/25 12/20 kV", max_loading_percent=100.)
        pp.create_load(net, b8, 1.0, 0.2)
        net.line["endtemp_degree"] = 80.
        if sc:
            net.line["r0_ohm_per_km"] = net.line.r_ohm_per_km * 4
            net.line["x0_ohm_per_km"] = net.line.x_ohm_per_km * 4
            net.line["c0_nf_per_km"] = net.line.c_nf_per_km
    if costs:
        pp.create_poly_cost(net, 0, "ext_grid", cp1_eur_per_mw=30.)
        pp.create_poly_cost(net, 0, "gen", cp1_eur_per_mw=20.)
        net.bus["min_vm_pu"] = 0.9
        net.bus["max_vm_pu"] = 1.1
    return net


def _case9_dcline():
    import pandapower as pp
    import pandapower.networks as pn
    net = pn.case9()
    pp.create_dcline(net, 4, 7, p_mw=20., loss_percent=1.0, loss_mw=0.1, vm_from_pu=1.0, vm_to_pu=1.0,
                     max_p_mw=50., min_q_from_mvar=-30., max_q_from_mvar=30., min_q_to_mvar=-30.,
                     max_q_to_mvar=30.)
    return net


def _b2b():
    import pandapower as pp
    net = pp.create_empty_network()
    pp.create_buses(net, 8, 380)
    pp.create_ext_grid(net, bus=0, vm_pu=1.0)
    pp.create_ext_grid(net, bus=1, vm_pu=1.0)
    pp.create_line_from_parameters(net, 0, 2, 1, 0.0487, 0.13823, 160, 0.664)
    pp.create_line_from_parameters(net, 1, 3, 1, 0.0487, 0.13823, 160, 0.664)
    pp.create_line_from_parameters(net, 4, 6, 1, 0.0487, 0.13823, 160, 0.664)
    pp.create_line_from_parameters(net, 5, 7, 1, 0.0487, 0.13823, 160, 0.664)
    pp.create_load(net, bus=6, p_mw=100.)
    pp.create_load(net, bus=7, p_mw=150.)
    for nm in "ABCDEF":
        pp.create_bus_dc(net, 380., nm)
    pp.create_line_dc_from_parameters(net, 0, 3, length_km=100, r_ohm_per_km=0.0212, max_i_ka=0.963)
    pp.create_line_dc_from_parameters(net, 2, 5, length_km=100, r_ohm_per_km=0.0212, max_i_ka=0.963)
    pp.create_line_dc_from_parameters(net, 1, 4, length_km=100, r_ohm_per_km=0.0212, max_i_ka=0.963)
    pp.create_b2b_vsc(net, 2, 0, 1, 0.2, 10, 0.3, control_mode_ac='vm_pu', control_value_ac=1,
                      control_mode_dc="vm_pu", control_value_dc=1.)
    pp.create_b2b_vsc(net, 3, 1, 2, 0.2, 10, 0.3, control_mode_ac='vm_pu', control_value_ac=1,
                      control_mode_dc="vm_pu", control_value_dc=1.)
    pp.create_b2b_vsc(net, 4, 3, 4, 0.2, 10, 0.3, control_mode_ac='slack', control_value_ac=1,
                      control_mode_dc="p_mw", control_value_dc=1.5)
    pp.create_b2b_vsc(net, 5, 4, 5, 0.2, 10, 0.3, control_mode_ac='slack', control_value_ac=1,
                      control_mode_dc="p_mw", control_value_dc=0.5)
    return net


def _ph3():
    import pandapower as pp
    net = pp.create_empty_network(sn_mva=100)
    b0 = pp.create_bus(net, 110., name="hv")
    b1 = pp.create_bus(net, 110., name="b1")
    b2 = pp.create_bus(net, 110., name="b2")
    pp.create_ext_grid(net, b0, vm_pu=1.0, s_sc_max_mva=5000, rx_max=0.1, r0x0_max=0.1, x0x_max=1.0,
                       s_sc_min_mva=4000., rx_min=0.1, r0x0_min=0.1, x0x_min=1.0)
    pp.create_std_type(net, {"r0_ohm_per_km": 0.0848, "x0_ohm_per_km": 0.4649556, "c0_nf_per_km": 230.6,
                             "max_i_ka": 0.963, "r_ohm_per_km": 0.0212, "x_ohm_per_km": 0.1162389,
                             "c_nf_per_km": 230, "endtemp_degree": 80.}, "example_type")
    pp.create_line(net, b0, b1, 50.0, "example_type")
    pp.create_line(net, b1, b2, 30.0, "example_type")
    pp.create_asymmetric_load(net, b1, p_a_mw=10, q_a_mvar=2, p_b_mw=8, q_b_mvar=1, p_c_mw=5, q_c_mvar=0.5)
    pp.create_asymmetric_load(net, b2, p_a_mw=3, q_a_mvar=1, p_b_mw=4, q_b_mvar=1, p_c_mw=6, q_c_mvar=1.5)
    pp.create_load(net, b2, 5., 1.)
    pp.add_zero_impedance_parameters(net)
    return net


BUILDERS = {
    "feeder": lambda: _feeder(),
    "feeder_dcline": lambda: _feeder(dcline=True),
    "feeder_taptable": lambda: _feeder(taptable=True),
    "feeder_all": lambda: _feeder(dcline=True, taptable=True, t3w=True),
    "feeder_t3w": lambda: _feeder(t3w=True),
    "feeder_opf": lambda: _feeder(dcline=True, costs=True),
    "case9": lambda: _pn().case9(),
    "case9_dcline": _case9_dcline,
    "case14": lambda: _pn().case14(),
    "case5": lambda: _pn().case5(),
    "four_bus": lambda: _pn().simple_four_bus_system(),
    "cigre_mv": lambda: _pn().create_cigre_network_mv(with_der=False),
    "multivoltage": lambda: _pn().example_multivoltage(),
    "b2b": _b2b,
    "ph3": _ph3,
}


def _pn():
    import pandapower.networks as pn
    return pn


def build_templates(names=None):
    for name in (names or sorted(BUILDERS)):
        if name not in TEMPLATES:
            TEMPLATES[name] = BUILDERS[name]()
    return TEMPLATES


def get(name):
    if name not in TEMPLATES:
        TEMPLATES[name] = BUILDERS[name]()
    return copy.deepcopy(TEMPLATES[name])


def import_all_pandapower():
    """import every pandapower sub-module once (in the warm parent), so that no lazy import runs
    inside a traced calculation"""
    import importlib
    import pkgutil
    import pandapower
    for m in pkgutil.walk_packages(pandapower.__path__, "pandapower."):
        name = m.name
        if ".test" in name or "converter.cim" in name or "powerfactory" in name or "pandamodels" in name \
                or name.endswith("runpm") or "plotting" in name or "jao" in name or "ucte" in name:
            continue
        try:
            importlib.import_module(name)
        except BaseException:
            pass
