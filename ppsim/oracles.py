"""Oracles shared by the property modules: table snapshot, scrubbed copy, numerical equality."""
import copy
import json
import math

import numpy as np
import pandas as pd

RTOL = 1e-6
ATOL = 1e-6


# ---------------------------------------------------------------------------------------------
# canonical forms
# ---------------------------------------------------------------------------------------------
def canon(obj, depth=0):
    """A JSON-able canonical form of an arbitrary cell / attribute value (exact, NaN-aware)."""
    if depth > 6:
        return "<deep>"
    if obj is None:
        return None
    if isinstance(obj, (bool, np.bool_)):
        return bool(obj)
    if isinstance(obj, (int, np.integer)):
        return int(obj)
    if isinstance(obj, (float, np.floating)):
        f = float(obj)
        if math.isnan(f):
            return "NaN"
        return f
    if isinstance(obj, str):
        return obj
    if obj is pd.NA or obj is pd.NaT:
        return "NA"
    if isinstance(obj, np.ndarray):
        return [canon(x, depth + 1) for x in obj.tolist()]
    if isinstance(obj, (list, tuple)):
        return [canon(x, depth + 1) for x in obj]
    if isinstance(obj, (set, frozenset)):
        return sorted((canon(x, depth + 1) for x in obj), key=repr)
    if isinstance(obj, dict):
        return {str(k): canon(v, depth + 1) for k, v in sorted(obj.items(), key=lambda kv: str(kv[0]))}
    if isinstance(obj, pd.DataFrame):
        return {"index": canon(obj.index.values, depth + 1),
                "cols": {str(c): canon(obj[c].values, depth + 1) for c in obj.columns}}
    if isinstance(obj, pd.Series):
        return {"index": canon(obj.index.values, depth + 1), "vals": canon(obj.values, depth + 1)}
    if isinstance(obj, pd.Index):
        return canon(obj.values, depth + 1)
    if hasattr(obj, "__dict__"):
        d = {k: v for k, v in vars(obj).items() if not k.startswith("_") and k not in ("net",)}
        return {"__class__": type(obj).__name__, "attrs": canon(d, depth + 1)}
    return repr(obj)


def cell_equal(a, b):
    if a is b:
        return True
    try:
        if isinstance(a, (float, np.floating)) and isinstance(b, (float, np.floating)):
            return (a == b) or (math.isnan(a) and math.isnan(b))
    except TypeError:
        pass
    return canon(a) == canon(b)


# ---------------------------------------------------------------------------------------------
# table snapshot oracle
# ---------------------------------------------------------------------------------------------
def is_input_key(key):
    return not (key.startswith("res_") or key.startswith("_"))


RESULT_SCALARS = ("converged", "OPF_converged")
# non-table items that are user input (everything else that is not a DataFrame -- net.ppci written
# by calc_sc, version stamps, converged flags -- is calculation state, not input)
USER_ITEMS = ("std_types", "user_pf_options", "name", "f_hz", "sn_mva")


def snapshot(net, with_results=False):
    snap = {"tables": {}, "other": {}}
    for key in list(net.keys()):
        val = net[key]
        if not with_results and not is_input_key(key):
            continue
        if key.startswith("_"):
            continue
        if isinstance(val, pd.DataFrame):
            snap["tables"][key] = val.copy(deep=True)
            # deep copy of object cells that are mutable (controller objects, lists)
            for c in val.columns:
                if val[c].dtype == object and len(val):
                    snap["tables"][key][c] = [copy.deepcopy(x) if not isinstance(x, (str, float, int, type(None)))
                                              else x for x in val[c].values]
        elif key in USER_ITEMS:
            snap["other"][key] = copy.deepcopy(val)
    return snap


def _col_equal(a, b):
    """NaN-aware exact equality of two equally long 1-d arrays -> boolean mask of differences"""
    a = np.asarray(a)
    b = np.asarray(b)
    if a.dtype.kind in "fc" or b.dtype.kind in "fc":
        try:
            af = a.astype(float)
            bf = b.astype(float)
            return ~((af == bf) | (np.isnan(af) & np.isnan(bf)))
        except (TypeError, ValueError):
            pass
    if a.dtype.kind in "biu" and b.dtype.kind in "biu":
        return a != b
    out = np.zeros(len(a), dtype=bool)
    for i, (x, y) in enumerate(zip(a.tolist() if a.dtype != object else a,
                                   b.tolist() if b.dtype != object else b)):
        out[i] = not cell_equal(x, y)
    return out


def diff_snapshot(snap, net, tables=None, ignore_cols=()):
    """-> list of dicts {table, kind, col, detail}; kinds: table_removed, rows_added, rows_removed,
    index_changed, col_removed, values_changed, other_changed; benign list separately"""
    diffs, benign = [], []
    new_cols = snap.setdefault("_new_cols", [])
    del new_cols[:]
    for key, old in snap["tables"].items():
        if tables is not None and key not in tables:
            continue
        if key not in net or not isinstance(net[key], pd.DataFrame):
            diffs.append({"table": key, "kind": "table_removed", "col": None, "detail": ""})
            continue
        new = net[key]
        oi, ni = old.index, new.index
        if len(oi) != len(ni) or not np.array_equal(oi.values, ni.values):
            oset, nset = set(oi.tolist()), set(ni.tolist())
            added = sorted(nset - oset, key=repr)
            removed = sorted(oset - nset, key=repr)
            if added and not removed:
                kind = "rows_added"
            elif removed and not added:
                kind = "rows_removed"
            else:
                kind = "index_changed"
            diffs.append({"table": key, "kind": kind, "col": None, "n": len(added) - len(removed),
                          "detail": f"index {oi.tolist()[:12]} -> {ni.tolist()[:12]} (+{len(added)}/-{len(removed)})"})
            common = [i for i in oi if i in nset]
            if not common or new.index.has_duplicates or old.index.has_duplicates:
                continue
            old_c, new_c = old.loc[common], new.loc[common]
        else:
            old_c, new_c = old, new
        for c in old.columns:
            if (key, c) in ignore_cols:
                continue
            if c not in new.columns:
                diffs.append({"table": key, "kind": "col_removed", "col": str(c), "detail": ""})
                continue
            if len(old_c) == 0:
                continue
            try:
                mask = _col_equal(old_c[c].values, new_c[c].values)
            except Exception as e:  # comparison itself must never be the alarm
                benign.append(f"{key}.{c}: uncomparable ({type(e).__name__})")
                continue
            if mask.any():
                pos = int(np.flatnonzero(mask)[0])
                diffs.append({"table": key, "kind": "values_changed", "col": str(c),
                              "detail": f"row {old_c.index[pos]!r}: {old_c[c].values[pos]!r} -> "
                                        f"{new_c[c].values[pos]!r} ({int(mask.sum())} cell(s))"})
            elif old[c].dtype != new[c].dtype:
                benign.append(f"{key}.{c}: dtype {old[c].dtype}->{new[c].dtype}")
        for c in new.columns:
            if c not in old.columns:
                benign.append(f"{key}.{c}: new column")
                new_cols.append((key, c))
    for key in list(net.keys()):
        if is_input_key(key) and isinstance(net[key], pd.DataFrame) and key not in snap["tables"] \
                and (tables is None or key in tables):
            if len(net[key]):
                diffs.append({"table": key, "kind": "table_added", "col": None, "detail": f"{len(net[key])} rows"})
    if tables is None:
        for key, old in snap["other"].items():
            if key not in net:
                diffs.append({"table": key, "kind": "other_removed", "col": None, "detail": ""})
            elif canon(old) != canon(net[key]):
                diffs.append({"table": key, "kind": "other_changed", "col": None,
                              "detail": f"{str(canon(old))[:80]} -> {str(canon(net[key]))[:80]}"})
    return diffs, benign


def restore_snapshot(snap, net):
    """put the snapshot's input tables back (used after a detected violation so that the rest of
    the episode continues from an uncorrupted state and later alarms are attributable)"""
    for key, old in snap["tables"].items():
        net[key] = copy.deepcopy(old)
    for key, old in snap["other"].items():
        net[key] = copy.deepcopy(old)


# ---------------------------------------------------------------------------------------------
# scrubbed copy: "a fresh deep copy of the current state"
# ---------------------------------------------------------------------------------------------
SCRUB_KEYS = ("_ppc", "_ppc0", "_ppc1", "_ppc2", "_ppc_opf", "_is_elements", "_is_elements_final",
              "_pd2ppc_lookups", "_isolated_buses", "_isolated_buses_dc", "_options",
              "_fused_bb_switches", "_impedance_bb_switches", "_gen_order", "_ppc_sc")


def scrubbed_copy(net):
    """deepcopy(net) minus everything the properties call history: result tables reset to the
    empty-network form, all `_`-prefixed internal state (ppc, lookups, options, is_elements, ...)
    reset to what create_empty_network() gives, converged flags cleared."""
    new = copy.deepcopy(net)
    tmpl = _empty_net()
    for k in list(new.keys()):
        if k.startswith("_"):
            if k in tmpl:
                new[k] = copy.deepcopy(tmpl[k])
            else:
                del new[k]
        elif k.startswith("res_") and isinstance(new[k], pd.DataFrame):
            if k in tmpl:
                new[k] = tmpl[k].copy(deep=True)
            else:
                del new[k]
    new["converged"] = False
    new["OPF_converged"] = False
    return new


def scrub_inplace(net):
    """the same scrubbing on the object itself (element tables, controllers and their state are kept)"""
    tmpl = _empty_net()
    for k in list(net.keys()):
        if k.startswith("_"):
            if k in tmpl:
                net[k] = copy.deepcopy(tmpl[k])
            else:
                del net[k]
        elif k.startswith("res_") and isinstance(net[k], pd.DataFrame):
            if k in tmpl:
                net[k] = tmpl[k].copy(deep=True)
            else:
                del net[k]
    net["converged"] = False
    net["OPF_converged"] = False
    return net


_EMPTY = None


def _empty_net():
    global _EMPTY
    if _EMPTY is None:
        import pandapower as pp
        _EMPTY = pp.create_empty_network()
    return _EMPTY


# ---------------------------------------------------------------------------------------------
# numerical comparison of result tables
# ---------------------------------------------------------------------------------------------
def compare_results(net_a, net_b, tables=None, rtol=RTOL, atol=ATOL, prefix="res_", skip_cols=()):
    """-> list of (table, col, kind, detail); a = live, b = reference"""
    out = []
    keys = sorted(k for k in net_b.keys() if k.startswith(prefix) and isinstance(net_b[k], pd.DataFrame))
    for k in keys:
        if tables is not None and k not in tables:
            continue
        b = net_b[k]
        if k not in net_a or not isinstance(net_a[k], pd.DataFrame):
            if len(b):
                out.append((k, None, "table_missing", ""))
            continue
        a = net_a[k]
        if len(a) != len(b) or not np.array_equal(np.asarray(a.index), np.asarray(b.index)):
            out.append((k, None, "index_differs", f"{a.index.tolist()[:10]} vs {b.index.tolist()[:10]}"))
            continue
        for c in b.columns:
            if c in skip_cols:
                continue
            if c not in a.columns:
                out.append((k, str(c), "col_missing", ""))
                continue
            d = compare_arrays(a[c].values, b[c].values, rtol, atol)
            if d:
                out.append((k, str(c), d[0], d[1]))
    return out


def compare_arrays(a, b, rtol=RTOL, atol=ATOL):
    a = np.asarray(a)
    b = np.asarray(b)
    if a.shape != b.shape:
        return ("shape_differs", f"{a.shape} vs {b.shape}")
    if a.dtype.kind in "fciub" and b.dtype.kind in "fciub":
        af = a.astype(complex) if (a.dtype.kind == "c" or b.dtype.kind == "c") else a.astype(float)
        bf = b.astype(af.dtype)
        na, nb = np.isnan(af), np.isnan(bf)
        if not np.array_equal(na, nb):
            pos = int(np.flatnonzero(na != nb)[0])
            return ("nan_pattern", f"pos {pos}: {a[pos]!r} vs {b[pos]!r}")
        ok = ~na
        with np.errstate(invalid="ignore"):
            infeq = np.isinf(af) & np.isinf(bf) & (af == bf)
            bad = ok & ~infeq & ~(np.abs(af - bf) <= atol + rtol * np.abs(bf))
        if bad.any():
            pos = int(np.flatnonzero(bad)[0])
            return ("values", f"pos {pos}: {a[pos]!r} vs {b[pos]!r} ({int(bad.sum())} cell(s))")
        return None
    for i, (x, y) in enumerate(zip(a, b)):
        if not cell_equal(x, y):
            return ("values", f"pos {i}: {x!r} vs {y!r}")
    return None


def sig_round(x, digits=9):
    """floats at `digits` significant digits for digests"""
    if isinstance(x, (float, np.floating)):
        f = float(x)
        if math.isnan(f):
            return "NaN"
        if math.isinf(f):
            return "inf" if f > 0 else "-inf"
        if f == 0:
            return 0.0
        return float(f"{f:.{digits - 1}e}")
    return x


def table_digest_data(df, cols=None, digits=9):
    cols = list(df.columns) if cols is None else [c for c in cols if c in df.columns]
    out = {"index": canon(df.index.values)}
    for c in cols:
        out[str(c)] = [sig_round(v, digits) if isinstance(v, (float, np.floating)) else canon(v)
                       for v in df[c].values.tolist()]
    return out
