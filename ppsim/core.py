"""ppsim core: seeds, episode execution in forked children, lanes, shrinking, replay, evidence."""
import collections
import faulthandler
import hashlib
import importlib
import json
import os
import pickle
import random
import select
import signal
import subprocess
import sys
import time
import traceback

from . import REPO, VERIF

EPISODE_TIMEOUT = 90
REAL_FORK = os.fork        # lanes trap os.fork; oracles that need a fresh process use this
MAX_SHRINK = 6
MAX_REPORT = 12      # signatures that get a replay file + fresh-process verification per run
LANES = int(os.environ.get("PPSIM_LANES", "16"))


# ---------------------------------------------------------------------------------------------
# seeds
# ---------------------------------------------------------------------------------------------
def master_seed(prop, tier, verif_seed):
    return hashlib.sha256(f"ppsim|{prop}|{tier}|{verif_seed}".encode()).hexdigest()


def episode_rng(master, idx):
    h = hashlib.sha256(f"{master}|{idx}".encode()).hexdigest()
    return random.Random(int(h, 16)), h[:16]


# ---------------------------------------------------------------------------------------------
# execution context
# ---------------------------------------------------------------------------------------------
class Ctx:
    """Everything an episode execution records.  Nothing in here draws randomness or reads a clock."""

    def __init__(self, ep):
        self.ep = ep
        self.log = []                # append-only event log (data only)
        self.violations = []         # {"sig", "detail", "op"}
        self.probes = collections.Counter()
        self.faults = collections.defaultdict(lambda: [0, 0])   # kind -> [configured, fired]
        self.conclusive = 0
        self.inconclusive = 0
        self.sim = collections.Counter()
        self.features = []           # features describing the case (for distinct counting)
        self.sites = set()
        self.benign = collections.Counter()
        self.seq = 0                 # global event sequence number

    def next_seq(self):
        self.seq += 1
        return self.seq

    def event(self, *items):
        self.log.append([self.next_seq(), *items])

    def violation(self, sig, detail, op=None):
        self.violations.append({"sig": sig, "detail": str(detail)[:600], "op": op})
        self.log.append([self.next_seq(), "VIOLATION", sig])

    def probe(self, name, n=1):
        self.probes[name] += n

    def fault_configured(self, kind):
        self.faults[kind][0] += 1

    def fault_fired(self, kind):
        self.faults[kind][1] += 1

    def outcome(self):
        digest = hashlib.sha256(json.dumps(self.log, sort_keys=True, default=str).encode()).hexdigest()
        return {"status": "ok", "violations": self.violations, "probes": dict(self.probes),
                "faults": {k: list(v) for k, v in self.faults.items()},
                "conclusive": self.conclusive, "inconclusive": self.inconclusive,
                "sim": dict(self.sim), "features": self.features, "sites": sorted(self.sites),
                "benign": dict(self.benign), "digest": digest, "n_events": self.seq,
                # per-event fingerprints: locate the first differing event if two runs of one episode ever disagree
                "evh": [hashlib.sha256(json.dumps(x, sort_keys=True, default=str).encode()).hexdigest()[:6]
                        for x in self.log]}


def execute_episode(module, ep, keep_log=False):
    """run one episode in this process"""
    ctx = Ctx(ep)
    try:
        module.execute(ep, ctx)
        out = ctx.outcome()
    except BaseException as e:  # a harness error, never a violation
        out = ctx.outcome()
        out["status"] = "harness_error"
        out["error"] = "".join(traceback.format_exception(type(e), e, e.__traceback__))[-3000:]
    if keep_log:
        out["log"] = ctx.log
    return out


def _trap_process_creation():
    """real process creation inside an episode is a harness error"""
    def _no_fork(*a, **k):
        raise RuntimeError("ppsim: unsimulated process creation inside an episode")
    os.fork = _no_fork
    if hasattr(os, "forkpty"):
        os.forkpty = _no_fork
    import multiprocessing.process as mpp
    mpp.BaseProcess.start = _no_fork
    subprocess.Popen.__init__ = _no_fork


def run_in_child(module, ep, keep_log=False, timeout=EPISODE_TIMEOUT, trap=True):
    """fork a fresh child from this (warm) process, execute the episode there, return the outcome"""
    r, w = os.pipe()
    pid = REAL_FORK()
    if pid == 0:
        code = 0
        try:
            os.close(r)
            dn = os.open(os.devnull, os.O_WRONLY)
            os.dup2(dn, 1)
            faulthandler.dump_traceback_later(max(5, timeout - 15), exit=False)
            if trap:
                _trap_process_creation()
            out = execute_episode(module, ep, keep_log)
            data = pickle.dumps(out)
            with os.fdopen(w, "wb") as fh:
                fh.write(data)
        except BaseException:
            code = 3
            try:
                traceback.print_exc()
            except Exception:
                pass
        finally:
            os._exit(code)
    os.close(w)
    chunks = []
    deadline = time.monotonic() + timeout
    timed_out = False
    with os.fdopen(r, "rb") as fh:
        fd = fh.fileno()
        while True:
            left = deadline - time.monotonic()
            if left <= 0:
                timed_out = True
                break
            ready, _, _ = select.select([fd], [], [], min(left, 1.0))
            if ready:
                b = os.read(fd, 1 << 20)
                if not b:
                    break
                chunks.append(b)
    if timed_out:
        try:
            os.kill(pid, signal.SIGKILL)
        except ProcessLookupError:
            pass
    _, status = os.waitpid(pid, 0)
    if timed_out:
        return {"status": "timeout", "violations": [], "error": f"episode exceeded {timeout}s"}
    try:
        return pickle.loads(b"".join(chunks))
    except Exception:
        return {"status": "harness_error", "violations": [],
                "error": f"child died (wait status {status}) without a result"}


# ---------------------------------------------------------------------------------------------
# lanes: long-lived worker processes forked once from the warm parent
# ---------------------------------------------------------------------------------------------
# Measured in this sandbox (Firecracker VM): fork()+exit of the 270 MB warm interpreter costs 19 ms
# alone but 0.25-1 s when 16 processes fork concurrently (address-space teardown / TLB shootdowns
# do not scale), i.e. fork-per-episode makes 16 lanes slower than one.  Episodes therefore run
# *in-process* in 16 long-lived lanes; isolation between episodes is not assumed but checked: the
# determinism self-test re-executes sampled episodes in another lane (different predecessors) and
# in a fresh interpreter and requires identical event-log digests.  Properties that need a really
# fresh process (C30's isolation oracle) fork explicitly (run_in_child).
def _recv(fd):
    hdr = b""
    while len(hdr) < 8:
        b = os.read(fd, 8 - len(hdr))
        if not b:
            raise EOFError
        hdr += b
    n = int.from_bytes(hdr, "little")
    chunks = []
    while n:
        b = os.read(fd, min(n, 1 << 20))
        if not b:
            raise EOFError
        chunks.append(b)
        n -= len(b)
    return pickle.loads(b"".join(chunks))


def _send(fd, obj):
    data = pickle.dumps(obj)
    data = len(data).to_bytes(8, "little") + data
    while data:
        n = os.write(fd, data)
        data = data[n:]


def _do_task(module, task):
    kind = task[0]
    if kind == "gen":
        _, prop, master, tier, idx, keep_log = task
        rng, eseed = episode_rng(master, idx)
        ep = module.generate(rng, idx, tier)
        ep.update({"format": "ppsim-episode-1", "property": prop, "episode_index": idx, "episode_seed": eseed})
        out = execute_episode(module, ep, keep_log)
        out["idx"] = idx
        out["ep"] = ep if (out.get("violations") or out["status"] != "ok" or idx < 3 or keep_log) else None
        return out
    _, ep, keep_log = task
    return execute_episode(module, ep, keep_log)


def _lane_main(module, rfd, wfd):
    dn = os.open(os.devnull, os.O_WRONLY)
    os.dup2(dn, 1)
    _trap_process_creation()
    faulthandler.enable()
    import gc
    n = 0
    while True:
        try:
            task = _recv(rfd)
        except EOFError:
            os._exit(0)
        if task is None:
            os._exit(0)
        faulthandler.dump_traceback_later(EPISODE_TIMEOUT - 10, exit=False)
        _t = time.monotonic()
        out = _do_task(module, task)
        out["lane_s"] = time.monotonic() - _t
        faulthandler.cancel_dump_traceback_later()
        _send(wfd, out)
        n += 1
        if n % 50 == 0:
            gc.collect()


class _Lane:
    def __init__(self, module):
        self.module = module
        self.start()

    def start(self):
        p2c_r, p2c_w = os.pipe()
        c2p_r, c2p_w = os.pipe()
        pid = REAL_FORK()
        if pid == 0:
            try:
                os.close(p2c_w)
                os.close(c2p_r)
                _lane_main(self.module, p2c_r, c2p_w)
            finally:
                os._exit(4)
        os.close(p2c_r)
        os.close(c2p_w)
        self.pid, self.wfd, self.rfd = pid, p2c_w, c2p_r
        self.task = None
        self.t_start = None

    def kill(self):
        try:
            os.kill(self.pid, signal.SIGKILL)
        except ProcessLookupError:
            pass
        try:
            os.waitpid(self.pid, 0)
        except ChildProcessError:
            pass
        for fd in (self.wfd, self.rfd):
            try:
                os.close(fd)
            except OSError:
                pass


class Lanes:
    """N long-lived lanes; tasks are dispatched one at a time per lane, results collected by select."""

    def __init__(self, module, n=None):
        self.module = module
        self.n = n or LANES
        import gc
        gc.collect()
        gc.freeze()     # keep the GC of the lanes from writing to (and thus copying) the parent's pages
        self.lanes = [_Lane(module) for _ in range(self.n)]

    def _run(self, tasks, deadline=None):
        """tasks: list of (key, task); returns dict key -> outcome; truncated flag"""
        results = {}
        pending = list(reversed(tasks))
        retried = set()
        truncated = False
        busy = {}
        while pending or busy:
            for lane in self.lanes:
                if lane.task is None and pending:
                    if deadline is not None and time.monotonic() > deadline:
                        truncated = True
                        pending = []
                        break
                    key, task = pending.pop()
                    lane.task = (key, task)
                    lane.t_start = time.monotonic()
                    _send(lane.wfd, task)
                    busy[lane.rfd] = lane
            if not busy:
                break
            ready, _, _ = select.select(list(busy), [], [], 1.0)
            now = time.monotonic()
            for fd in ready:
                lane = busy.pop(fd)
                key = lane.task[0]
                try:
                    results[key] = _recv(fd)
                except Exception:
                    # the lane process died (e.g. a crash in native code after many episodes): the episode is
                    # retried once in a fresh lane; only a second death is a harness error
                    task = lane.task[1]
                    lane.kill()
                    lane.start()
                    if key in retried:
                        results[key] = {"status": "harness_error", "violations": [], "idx": key,
                                        "error": "lane died twice while executing the episode"}
                    else:
                        retried.add(key)
                        pending.append((key, task))
                lane.task = None
            for fd, lane in list(busy.items()):
                if now - lane.t_start > EPISODE_TIMEOUT:
                    key = lane.task[0]
                    results[key] = {"status": "timeout", "violations": [], "idx": key,
                                    "error": f"episode exceeded {EPISODE_TIMEOUT}s"}
                    busy.pop(fd)
                    lane.kill()
                    lane.start()
        return results, truncated

    def map_episodes(self, prop, master, tier, indices, keep_log=False, deadline=None):
        tasks = [(i, ("gen", prop, master, tier, i, keep_log)) for i in indices]
        res, truncated = self._run(tasks, deadline)
        out = []
        for i in sorted(res):
            o = res[i]
            o.setdefault("idx", i)
            o.setdefault("ep", None)
            out.append(o)
        return out, truncated

    def exec_many(self, eps, keep_log=False):
        tasks = [(k, ("exec", ep, keep_log)) for k, ep in enumerate(eps)]
        res, _ = self._run(tasks)
        return [res[k] for k in range(len(eps))]

    def close(self):
        for lane in self.lanes:
            try:
                _send(lane.wfd, None)
            except OSError:
                pass
        for lane in self.lanes:
            lane.kill()


# ---------------------------------------------------------------------------------------------
# shrinking (ddmin over ops + per-op simplification), same-signature criterion
# ---------------------------------------------------------------------------------------------
def shrink(module, lanes, ep, sig, budget_runs=300, budget_s=120):
    t0 = time.monotonic()
    runs = [0]

    def fails_many(cands):
        """evaluate candidates in parallel; returns list of bool"""
        if not cands:
            return []
        runs[0] += len(cands)
        outs = lanes.exec_many(cands)
        return [o.get("status") == "ok" and any(v["sig"] == sig for v in o.get("violations", []))
                for o in outs]

    def over():
        return runs[0] >= budget_runs or time.monotonic() - t0 > budget_s

    def with_ops(ops):
        e = dict(ep)
        e["ops"] = ops
        return e

    ops = list(ep["ops"])
    # ddmin
    n = 2
    while len(ops) >= 2 and not over():
        chunk = max(1, len(ops) // n)
        subsets = [ops[:i] + ops[i + chunk:] for i in range(0, len(ops), chunk)]
        res = fails_many([with_ops(s) for s in subsets])
        hit = next((s for s, r in zip(subsets, res) if r), None)
        if hit is not None:
            ops = hit
            n = max(n - 1, 2)
        else:
            if chunk == 1:
                break
            n = min(len(ops), n * 2)
    # per-op simplification
    simplify = getattr(module, "simplify_op", None)
    changed = True
    while simplify and changed and not over():
        changed = False
        for i, op in enumerate(list(ops)):
            cands = simplify(op)
            if not cands:
                continue
            trial = [with_ops(ops[:i] + [c] + ops[i + 1:]) for c in cands]
            res = fails_many(trial)
            for c, r in zip(cands, res):
                if r:
                    ops = ops[:i] + [c] + ops[i + 1:]
                    changed = True
                    break
            if over():
                break
    return with_ops(ops), runs[0]


# ---------------------------------------------------------------------------------------------
# known findings
# ---------------------------------------------------------------------------------------------
def load_known(prop):
    path = os.path.join(VERIF, "known_findings.json")
    if not os.path.exists(path):
        return {}, []
    data = json.load(open(path))
    open_ = {f["signature"]: f for f in data.get("findings", [])
             if f.get("property") == prop and f.get("status") == "open"}
    fixed = [f for f in data.get("findings", []) if f.get("property") == prop and f.get("status") == "fixed"]
    return open_, fixed


def tree_identity():
    try:
        head = subprocess.run(["git", "-C", REPO, "rev-parse", "--short", "HEAD"], capture_output=True,
                              text=True, timeout=20).stdout.strip()
        dirty = bool(subprocess.run(["git", "-C", REPO, "status", "--porcelain", "--untracked-files=no"],
                                    capture_output=True, text=True, timeout=20).stdout.strip())
    except Exception:
        head, dirty = "unknown", None
    return {"head": head, "dirty": dirty}


def sig_hash(sig):
    return hashlib.sha256(sig.encode()).hexdigest()[:10]


def write_replay(prop, ep, sig, outcome, verif_seed, directory=None):
    directory = directory or os.path.join(VERIF, "replays")
    os.makedirs(directory, exist_ok=True)
    e = dict(ep)
    e["verif_seed"] = verif_seed
    e["tree"] = tree_identity()
    trace = [v["detail"] for v in outcome.get("violations", []) if v["sig"] == sig][:3]
    e["expect"] = {"signature": sig, "digest": outcome.get("digest"), "trace": trace}
    path = os.path.join(directory, f"{prop}-{sig_hash(sig)}-{verif_seed}.json")
    with open(path, "w") as fh:
        json.dump(e, fh, indent=1, sort_keys=True)
    return path


def replay_fresh_process(paths):
    """re-execute replay files in ONE fresh interpreter: returns ({path: reproduced}, output)"""
    if not paths:
        return {}, ""
    p = subprocess.run([os.path.join(VERIF, "check"), "replay", *paths], capture_output=True, text=True,
                       timeout=3600)
    ok = {}
    for line in p.stdout.splitlines():
        if line.startswith("REPRODUCED "):
            ok[line.split("file=")[1].strip()] = True
    return {q: ok.get(q, False) for q in paths}, p.stdout + p.stderr


# ---------------------------------------------------------------------------------------------
# the check driver
# ---------------------------------------------------------------------------------------------
def _quiet(fn):
    """run fn() with the process' stdout (fd 1) pointed at /dev/null: pandapower prints from solvers"""
    sys.stdout.flush()
    saved = os.dup(1)
    dn = os.open(os.devnull, os.O_WRONLY)
    try:
        os.dup2(dn, 1)
        return fn()
    finally:
        sys.stdout.flush()
        os.dup2(saved, 1)
        os.close(saved)
        os.close(dn)


def load_module(prop):
    return importlib.import_module(f"ppsim.props.{prop.lower()}")


def verify_tree():
    import pandapower
    pth = os.path.realpath(pandapower.__file__)
    if not pth.startswith(os.path.realpath(REPO) + os.sep):
        print(f"HARNESS-ERROR pandapower imported from {pth}, not from {REPO}")
        sys.exit(2)


def run_check(prop, tier, verif_seed, budget=None, wall_cap=None, selftest=True):
    t0 = time.monotonic()
    master = master_seed(prop, tier, verif_seed)
    print(f"SEED {verif_seed} master={master[:16]} property={prop} tier={tier}", flush=True)
    verify_tree()
    module = load_module(prop)
    from . import tracer
    tracer.build_recovery_index()
    _quiet(module.warm)
    n_total = budget or module.BUDGET[tier]
    wall_cap = wall_cap or module.WALL_CAP[tier]
    lanes = Lanes(module, n=min(LANES, getattr(module, "LANES", LANES)))
    try:
        return _run_check(prop, tier, verif_seed, master, module, lanes, n_total, wall_cap, t0, selftest)
    finally:
        lanes.close()


def _run_check(prop, tier, verif_seed, master, module, lanes, n_total, wall_cap, t0, selftest):
    deadline = t0 + wall_cap
    results, truncated = lanes.map_episodes(prop, master, tier, range(n_total), deadline=deadline)
    harness_errors = [o for o in results if o["status"] != "ok"]
    # ---- determinism self-test (reduced form in quick) ------------------------------------------
    det = {"sampled": 0, "same_process_pool": 0, "fresh_interpreter_hashseed1": 0, "mismatches": 0}
    if selftest and results:
        k = min(len(results), 24 if tier == "quick" else 200)
        step = max(1, len(results) // k)
        sample = [o["idx"] for o in results[::step]][:k]
        again, _ = lanes.map_episodes(prop, master, tier, sample)
        first = {o["idx"]: o for o in results}
        if os.environ.get("PPSIM_SELFTEST_INJECT") and sample:
            # test hook for the arbitration below: pretend the first run of one sampled episode deviated
            first[sample[0]] = dict(first[sample[0]], digest="injected-deviation")
        for o in again:
            det["sampled"] += 1
            if o.get("digest") == first[o["idx"]].get("digest"):
                det["same_process_pool"] += 1
                continue
            # arbitration: two brand-new lane processes (no episode history at all) execute the episode once more.
            # If they agree with each other, their outcome is the episode's outcome: the deviating run was
            # influenced by what its long-lived lane had executed before (reported and counted, the episode is
            # re-judged from the clean run).  If they disagree, the execution itself is not a function of the seed.
            i = o["idx"]
            arb = []
            for _ in range(2):
                fl = Lanes(module, n=1)
                try:
                    r_, _ = fl.map_episodes(prop, master, tier, [i], keep_log=True)
                finally:
                    fl.close()
                arb.append(r_[0])
            a, b = first[i], o
            dev = next((j for j, (x, y) in enumerate(zip(a.get("evh") or [], b.get("evh") or [])) if x != y),
                       min(len(a.get("evh") or []), len(b.get("evh") or [])))
            if arb[0].get("digest") == arb[1].get("digest") and arb[0].get("digest") in (a.get("digest"), b.get("digest")):
                which = "first" if arb[0].get("digest") != a.get("digest") else "repeated"
                line = (arb[0].get("log") or [])[dev:dev + 1]
                det["lane_history_dependent"] = det.get("lane_history_dependent", 0) + 1
                print(f"NOTE episode {i}: its {which} run in a long-lived lane deviates from two clean-process runs "
                      f"(which agree) from event {dev} on; clean run has {json.dumps(line, default=str)[:300]}; the "
                      f"episode is judged from the clean run")
                clean = arb[0]
                clean["idx"] = i
                clean.setdefault("ep", a.get("ep"))
                for j_, r0 in enumerate(results):
                    if r0["idx"] == i:
                        results[j_] = clean
                first[i] = clean
            else:
                det["mismatches"] += 1
                print(f"NONDETERMINISM episode {i}: digests differ between runs, also in clean processes "
                      f"({[x.get('digest', '')[:10] for x in (a, b, *arb)]}), first deviation at event {dev}")
        fresh = sample[:8 if tier == "quick" else 48]
        env = dict(os.environ, PYTHONHASHSEED="1", PPSIM_LANES="4", VERIF_SEED=str(verif_seed))
        p = subprocess.run([sys.executable, os.path.join(VERIF, "ppsim_cli.py"), "digests", prop, tier,
                            ",".join(map(str, fresh))], env=env, capture_output=True, text=True, timeout=900)
        try:
            got = json.loads(p.stdout.strip().splitlines()[-1])
        except Exception:
            got = {}
            print("HARNESS-ERROR fresh-interpreter digest run failed:", p.stdout[-500:], p.stderr[-1500:])
            det["mismatches"] += 1
        for i in fresh:
            if got.get(str(i)) == first[i].get("digest"):
                det["fresh_interpreter_hashseed1"] += 1
            else:
                det["mismatches"] += 1
                print(f"NONDETERMINISM episode {i}: digest differs in fresh interpreter (PYTHONHASHSEED=1, 4 lanes)")

    # ---- aggregate ----------------------------------------------------------------------------
    agg = aggregate(results)
    if os.environ.get("PPSIM_TIMING"):
        ls = sorted(o.get("lane_s", 0) for o in results)
        for o in sorted(results, key=lambda o: -o.get("lane_s", 0))[:12]:
            print("  slow", o["idx"], round(o.get("lane_s", 0), 2), o.get("sim"))
        print(f"TIMING in-lane seconds: sum={sum(ls):.1f} median={ls[len(ls)//2]:.2f} max={ls[-1]:.2f} "
              f"dispatch_wall={time.monotonic() - t0:.1f}")
    known_open, known_fixed = load_known(prop)
    by_sig = collections.OrderedDict()
    for o in results:
        for v in o.get("violations", []):
            by_sig.setdefault(v["sig"], []).append(o)
    exit_code = 0
    known_seen, new_violations = [], []
    pending = []
    overflow = []
    for sig, outs in by_sig.items():
        if sig in known_open:
            known_seen.append(sig)
            print(f"KNOWN-FINDING: property={prop} {known_open[sig]['what']} [signature {sig}; "
                  f"{len(outs)} episode(s)]")
            continue
        if len(pending) >= MAX_REPORT:
            overflow.append(sig)
            continue
        o = min(outs, key=lambda o: len(o["ep"]["ops"]))
        nruns = 0
        small, out_small = o["ep"], o
        if len(pending) < MAX_SHRINK:
            cand, nruns = shrink(module, lanes, o["ep"], sig, budget_runs=300,
                                 budget_s=30 if tier == "quick" else 120)
            out_c = lanes.exec_many([cand], keep_log=False)[0]
            if any(v["sig"] == sig for v in out_c.get("violations", [])):
                small, out_small = cand, out_c
        path = write_replay(prop, small, sig, out_small, verif_seed)
        pending.append((sig, outs, small, out_small, nruns, path))
    replayed, txt = replay_fresh_process([p[-1] for p in pending])
    for sig, outs, small, out_small, nruns, path in pending:
        if not replayed.get(path):
            print(f"HARNESS-ERROR violation {sig} did not replay from {path}:\n{txt[-1500:]}")
            exit_code = max(exit_code, 2)
            continue
        detail = next(v["detail"] for v in out_small["violations"] if v["sig"] == sig)
        print(f"VIOLATION property={prop} replay={path}")
        print(f"  signature: {sig}\n  episodes: {len(outs)} (first idx {outs[0]['idx']}), minimised to "
              f"{len(small['ops'])} ops in {nruns} runs\n  detail: {detail}")
        new_violations.append({"signature": sig, "replay": path, "episodes": len(outs), "detail": detail})
        exit_code = max(exit_code, 1)
    if overflow:
        print(f"NOTE {len(overflow)} further violation signature(s) were seen but not minimised/replayed in this run "
              f"(cap {MAX_REPORT}): " + "; ".join(overflow[:20]))
        exit_code = max(exit_code, 1)
    if harness_errors:
        for o in harness_errors[:5]:
            print(f"HARNESS-ERROR episode {o.get('idx')}: {o['status']}: {o.get('error', '')[-1200:]}")
        exit_code = 2 if exit_code == 0 else exit_code
    if det["mismatches"]:
        exit_code = 2 if exit_code == 0 else exit_code
    for name in getattr(module, "REACH_PROBES", []):
        if not agg["probes"].get(name):
            print(f"WARNING reach probe stuck at zero: {name}")

    wall = time.monotonic() - t0
    write_evidence(prop, tier, verif_seed, module, results, agg, det, known_seen, new_violations,
                   truncated, wall, len(harness_errors))
    print(f"DONE property={prop} tier={tier} episodes={len(results)} conclusive_checks={agg['conclusive']} "
          f"violations={len(new_violations)} known={len(known_seen)} harness_errors={len(harness_errors)} "
          f"wall={wall:.1f}s exit={exit_code}")
    return exit_code


def aggregate(results):
    agg = {"probes": collections.Counter(), "faults": collections.defaultdict(lambda: [0, 0]),
           "conclusive": 0, "inconclusive": 0, "sim": collections.Counter(), "features": set(),
           "sites": set(), "benign": collections.Counter(), "n_events": 0, "nontrivial_eps": 0}
    for o in results:
        if o["status"] != "ok":
            continue
        agg["probes"].update(o["probes"])
        for k, (c, f) in o["faults"].items():
            agg["faults"][k][0] += c
            agg["faults"][k][1] += f
        agg["conclusive"] += o["conclusive"]
        agg["inconclusive"] += o["inconclusive"]
        agg["sim"].update(o["sim"])
        if o["conclusive"] > 0:
            agg["nontrivial_eps"] += 1
            agg["features"].update(o["features"])
        agg["sites"].update(o["sites"])
        agg["benign"].update(o["benign"])
        agg["n_events"] += o["n_events"]
    return agg


def write_evidence(prop, tier, verif_seed, module, results, agg, det, known_seen, new_violations,
                   truncated, wall, n_harness_err):
    ok = [o for o in results if o["status"] == "ok"]
    samples = []
    for o in results:
        if o.get("ep") is not None and len(samples) < 3:
            samples.append({"episode_index": o["idx"], "cfg": o["ep"].get("cfg"), "ops": o["ep"]["ops"][:60],
                            "faults_fired": {k: v[1] for k, v in o.get("faults", {}).items()},
                            "conclusive_checks": o.get("conclusive")})
    fired_sample = next((o for o in results if o.get("ep") is not None and
                         any(v[1] for v in o.get("faults", {}).values())), None)
    if fired_sample is not None and all(s["episode_index"] != fired_sample["idx"] for s in samples):
        samples.append({"episode_index": fired_sample["idx"], "cfg": fired_sample["ep"].get("cfg"),
                        "ops": fired_sample["ep"]["ops"][:60],
                        "faults_fired": {k: v[1] for k, v in fired_sample["faults"].items()},
                        "conclusive_checks": fired_sample.get("conclusive")})
    ev = {
        "property_id": prop, "tier": tier, "seed": int(verif_seed), "level": "exploration",
        "coverage": {
            "evaluations": len(ok),
            "distinct_nontrivial": len(agg["features"]),
            "rule": module.RULE,
            "samples": samples,
            "runs_per_hour": round(len(ok) / wall * 3600) if wall > 0 else 0,
            "seeds": {"verif_seed": int(verif_seed), "episodes": len(results),
                      "episode_seed_rule": "sha256(sha256('ppsim|<prop>|<tier>|<VERIF_SEED>')|<index>)"},
            "simulated_time": dict(agg["sim"], events=agg["n_events"]),
            "faults": {k: {"configured": v[0], "fired": v[1]} for k, v in sorted(agg["faults"].items())},
            "reach_probes": dict(sorted(agg["probes"].items())),
            "distinct_injection_sites": len(agg["sites"]),
            "conclusive_checks": agg["conclusive"], "inconclusive_checks": agg["inconclusive"],
            "episodes_with_conclusive_check": agg["nontrivial_eps"],
            "benign_drift": dict(agg["benign"].most_common(12)),
            "components": module.COMPONENTS,
            "determinism_selftest": det,
            "run_digest": hashlib.sha256("".join(f"{o['idx']}:{o.get('digest')};" for o in results).encode()).hexdigest(),
            "known_findings_seen": known_seen,
            "violations": new_violations,
            "budget_truncated_by_wall_cap": truncated,
            "harness_errors": n_harness_err,
            "tree": tree_identity(),
        },
        "assumptions": module.ASSUMPTIONS,
        "wall_s": round(wall, 2),
        "violations": len(new_violations),
    }
    # development aid PPSIM_REPO (checks run against a scratch tree): that is not evidence about /repo
    ev_dir = os.path.join(VERIF, "evidence") if not os.environ.get("PPSIM_REPO") else \
        os.path.join(VERIF, "replays", "scratch-evidence")
    os.makedirs(ev_dir, exist_ok=True)
    with open(os.path.join(ev_dir, f"{prop}.json"), "w") as fh:
        json.dump(ev, fh, indent=1, sort_keys=True, default=str)


# ---------------------------------------------------------------------------------------------
# replay / digests sub-commands
# ---------------------------------------------------------------------------------------------
def cmd_replay(paths):
    """re-execute replay files; exit 1 iff every file's expected signature re-occurs (or, for a file
    without expectation, any violation occurs)"""
    verify_tree()
    from . import tracer
    tracer.build_recovery_index()
    rc_all = 0
    for path in paths:
        ep = json.load(open(path))
        prop = ep["property"]
        module = load_module(prop)
        if hasattr(module, "warm_light"):
            module.warm_light()
        # (cold numba compilation happens inside this child: generous timeout)
        out = run_in_child(module, ep, keep_log=True, timeout=900)
        sig = ep.get("expect", {}).get("signature")
        print(f"REPLAY {path} property={prop} status={out['status']} digest={out.get('digest')}")
        for v in out.get("violations", []):
            print(f"  violation {v['sig']}: {v['detail']}")
        if out["status"] != "ok":
            print(out.get("error"))
            rc_all = max(rc_all, 2)
            continue
        if sig is None:
            if out["violations"]:
                print(f"REPRODUCED (any violation) file={path}")
                rc_all = max(rc_all, 1)
            continue
        if any(v["sig"] == sig for v in out["violations"]):
            same = out.get("digest") == ep["expect"].get("digest")
            print(f"REPRODUCED signature={sig} digest_match={same} file={path}")
            rc_all = max(rc_all, 1)
        else:
            print(f"NOT-REPRODUCED signature={sig} file={path}")
    return rc_all


def cmd_digests(prop, tier, indices, verif_seed):
    verify_tree()
    module = load_module(prop)
    from . import tracer
    tracer.build_recovery_index()
    _quiet(module.warm)
    master = master_seed(prop, tier, verif_seed)
    lanes = Lanes(module, n=int(os.environ.get("PPSIM_LANES", "4")))
    try:
        res, _ = lanes.map_episodes(prop, master, tier, indices)
    finally:
        lanes.close()
    print(json.dumps({str(o["idx"]): o.get("digest") for o in res}))
    return 0
