"""C08 -- calculations never corrupt the user's network, even when they fail.

Crash points: an exception injected at a seeded call/line event inside the calculation pipeline
(sys.settrace seam), natural failures through the public API, and the success path.
Oracle: table snapshot taken immediately before the op, compared immediately after it returns or
raises.
"""
import copy

import numpy as np

from .. import nets, ops, oracles, tracer

PROPERTY = "C08"
BUDGET = {"quick": 1000, "thorough": 40000}
WALL_CAP = {"quick": 150, "thorough": 1500}
RULE = ("Episodes = template net + seeded create/set/toggle ops + 1-4 calculation ops, each in one of three "
        "strata (no fault / natural failure / exception injected at the k-th eligible call or line event of "
        "the pipeline, k resolved against a dry run on a deep copy). A case is non-trivial when the "
        "before/after table-snapshot comparison was actually performed around a calculation; distinct = "
        "distinct (calculation kind, stratum, exception type, injection site file:function, outcome class) "
        "tuples among those."
        ' Between the calculations of an episode the user also creates / drops elements; power flow, short-circuit and DC options vary (trafo_loading, trafo3w_losses, line temperature, kappa method, fault impedance, bus argument forms).')
COMPONENTS = {"real": ["pandapower calculation pipelines (runpp, rundcpp, runopp, rundcopp, runpp_3ph, calc_sc, "
                       "estimate, run_contingency, run_contingency_ls2g, run_contingency_parallel n_procs=1)",
                       "numba kernels, scipy/SuperLU, lightsim2grid (not interrupted)"],
              "stub": ["none (exceptions are injected by the interpreter trace facility)"]}
ASSUMPTIONS = ["single fault per calculation; recovery code (finally/except bodies, code called from them, "
               "__exit__/__del__, `try:` header lines) is never interrupted",
               "exceptions are injected only in Python frames of /repo/pandapower (not in numba/scipy/C++)",
               "new columns and value-preserving dtype widening are not violations (counted as benign drift)"]
REACH_PROBES = ["raised_while_aux_gens_present", "raised_inside__pd2ppc", "raised_inside_solver",
                "raised_inside__extract_results", "swallowed_by_inner_handler", "natural_failure",
                "success_path_checked", "injected_fired", "non_contiguous_index"]

TEMPLATE_W = [("feeder_dcline", 5), ("case9_dcline", 4), ("feeder_all", 4), ("feeder_taptable", 3),
              ("feeder", 2), ("case9", 2), ("b2b", 2), ("ph3", 3), ("feeder_t3w", 2), ("case14", 1),
              ("cigre_mv", 1), ("four_bus", 1), ("feeder_opf", 1)]

CALC_W = [("runpp", 8), ("rundcpp", 2), ("runopp", 2), ("rundcopp", 2), ("runpp_3ph", 2), ("calc_sc", 4),
          ("estimate", 1), ("run_contingency", 2), ("run_contingency_ls2g", 1), ("run_contingency_parallel", 1)]


def warm():
    import pandapower as pp
    import pandapower.shortcircuit as sc
    nets.import_all_pandapower()
    nets.build_templates()
    for name in ("feeder_dcline", "case9_dcline", "ph3", "b2b"):
        for f in (lambda n: pp.runpp(n), lambda n: pp.runpp(n, numba=False), lambda n: pp.rundcpp(n),
                  lambda n: pp.runopp(n), lambda n: pp.rundcopp(n), lambda n: pp.runpp_3ph(n),
                  lambda n: sc.calc_sc(n, case="max", fault="3ph"), lambda n: sc.calc_sc(n, fault="1ph"),
                  lambda n: pp.runpp(n, algorithm="bfsw"), lambda n: pp.runpp(n, algorithm="gs"),
                  lambda n: pp.runpp(n, algorithm="fdbx"), lambda n: pp.runpp(n, enforce_q_lims=True),
                  lambda n: pp.runpp(n, lightsim2grid=False), lambda n: pp.runpp(n, init="dc")):
            try:
                f(nets.get(name))
            except Exception:
                pass


def _wchoice(rng, table):
    tot = sum(w for _, w in table)
    x = rng.uniform(0, tot)
    for v, w in table:
        x -= w
        if x <= 0:
            return v
    return table[-1][0]


def gen_calc_kw(rng, kind, allow_natural=True):
    kw = {}
    natural = None
    if kind == "runpp":
        r = rng.random()
        if r < 0.55:
            kw["algorithm"] = "nr"
        else:
            kw["algorithm"] = rng.choice(["iwamoto_nr", "bfsw", "gs", "fdbx", "fdxb"])
            if kw["algorithm"] == "gs":
                kw["max_iteration"] = 150   # pure-python Gauss-Seidel: 10 000 iterations cost 17 s
        if rng.random() < 0.35:
            kw["init"] = rng.choice(["flat", "dc", "results", "auto"])
        if rng.random() < 0.2:
            kw["enforce_q_lims"] = True
        if rng.random() < 0.2:
            kw["numba"] = False
        if rng.random() < 0.2:
            kw["lightsim2grid"] = False
        if rng.random() < 0.15:
            kw["check_connectivity"] = False
        if rng.random() < 0.15:
            kw["trafo_model"] = "pi"
        if rng.random() < 0.1:
            kw["calculate_voltage_angles"] = False
        if rng.random() < 0.07:
            kw["distributed_slack"] = True
        if rng.random() < 0.07:
            kw["voltage_depend_loads"] = False
        # further option-dependent code paths of the conversion (each multiplies / corrects arrays taken from the net)
        if rng.random() < 0.1:
            kw["trafo_loading"] = "power"
        if rng.random() < 0.08:
            kw["trafo3w_losses"] = "star"
        if rng.random() < 0.08:
            kw["switch_rx_ratio"] = 5
        if rng.random() < 0.08:
            kw["neglect_open_switch_branches"] = True
        if rng.random() < 0.1:
            kw["consider_line_temperature"] = True
    elif kind == "rundcpp":
        if rng.random() < 0.2:
            kw["trafo_model"] = "pi"
        if rng.random() < 0.15:
            kw["check_connectivity"] = False
        if rng.random() < 0.15:
            kw["trafo_loading"] = "power"
    elif kind in ("runopp", "rundcopp"):
        if kind == "runopp" and rng.random() < 0.3:
            kw["init"] = rng.choice(["flat", "pf"])
        if rng.random() < 0.2:
            kw["numba"] = False
    elif kind == "calc_sc":
        kw["fault"] = rng.choice(["3ph", "3ph", "2ph", "1ph"])
        kw["case"] = rng.choice(["max", "min"])
        if rng.random() < 0.4:
            kw["branch_results"] = True
        if rng.random() < 0.2:
            kw["inverse_y"] = False
        if rng.random() < 0.3:
            kw["bus_k"] = [rng.randrange(100) for _ in range(rng.randint(1, 3))]
        if rng.random() < 0.3:
            kw["ip"] = True
        if rng.random() < 0.2:
            kw["ith"] = True
        if rng.random() < 0.15:
            kw["kappa_method"] = "B"
        if rng.random() < 0.15:
            kw["topology"] = "radial"
        if rng.random() < 0.15:
            kw.update(r_fault_ohm=0.1, x_fault_ohm=0.2)
        if rng.random() < 0.1:
            kw["lv_tol_percent"] = 6
        if rng.random() < 0.1:
            kw["check_connectivity"] = False
        if rng.random() < 0.15 and kw["fault"] == "3ph":
            kw["use_pre_fault_voltage"] = True
        if "bus_k" in kw:
            kw["bus_form"] = rng.choice(["list", "array", "index", "int"])
    elif kind in ("run_contingency", "run_contingency_ls2g", "run_contingency_parallel"):
        kw["cases"] = {"line": [rng.randrange(100) for _ in range(rng.randint(1, 4))],
                       "trafo": [rng.randrange(100) for _ in range(rng.randint(0, 2))]}
        if kind != "run_contingency_ls2g" and rng.random() < 0.3:
            kw["cases"]["trafo3w"] = [rng.randrange(100)]
        if kind == "run_contingency" and rng.random() < 0.3:
            kw["raise_errors"] = True
        if kind == "run_contingency_parallel":
            kw["n_procs"] = 1
    if allow_natural:
        if kind == "runpp":
            natural = rng.choice(["max_iter", "max_iter", "no_slack", "no_slack", "bad_algorithm", "stale_results"])
        elif kind in ("rundcpp", "runpp_3ph", "calc_sc", "run_contingency_ls2g"):
            natural = "no_slack"
        elif kind in ("runopp", "rundcopp"):
            natural = rng.choice(["no_slack", "opf_maxit", "opf_infeasible"])
        elif kind in ("run_contingency", "run_contingency_parallel"):
            natural = rng.choice(["no_slack", "max_iter_raise"])
        elif kind == "estimate":
            natural = "always"
    return kw, natural


def gen_fault(rng, exc_types):
    return {"kind": "raise", "gran": rng.choice(["call", "line"]),
            "strat": rng.choice(["uniform", "site", "site"]), "u": round(rng.random(), 6),
            "v": round(rng.random(), 6), "exc": rng.choice(exc_types)}


def generate(rng, idx, tier):
    cfg = {"template": _wchoice(rng, TEMPLATE_W),
           "fault_rate": rng.choice([0.3, 0.5, 0.7]),
           "natural_rate": rng.choice([0.1, 0.2, 0.3]),
           "exc_types": rng.sample(["InjectedFault", "KeyboardInterrupt", "MemoryError"], rng.randint(1, 3)),
           "n_calc": rng.randint(1, 4)}
    ol = [{"op": "template", "name": cfg["template"]}]
    for _ in range(rng.randint(0, 5)):
        ol.append(ops.gen_create(rng, ["load", "sgen", "gen", "line", "switch_b", "switch_l", "shunt",
                                       "dcline", "dcline", "bus", "ward", "xward", "impedance", "storage"]))
    for _ in range(rng.choice([0, 0, 1, 2])):
        ol.append(ops.gen_drop(rng))         # leaves non-contiguous indices behind
    for _ in range(cfg["n_calc"]):
        for _ in range(rng.randint(0, 3)):
            r = rng.random()
            # between calculations the user edits values, switches, and also adds / drops elements (whatever an
            # earlier - possibly failed - calculation left behind must not make the next one touch these rows)
            ol.append(ops.gen_set(rng) if r < 0.5 else ops.gen_toggle(rng) if r < 0.75 else
                      ops.gen_create(rng, ["gen", "gen", "gen", "load", "sgen", "dcline", "line", "bus"]) if r < 0.95
                      else ops.gen_drop(rng))
        kind = _wchoice(rng, CALC_W)
        r = rng.random()
        stratum = "inject" if r < cfg["fault_rate"] else \
            "natural" if r < cfg["fault_rate"] + cfg["natural_rate"] else "none"
        kw, natural = gen_calc_kw(rng, kind)
        op = {"op": "calc", "kind": kind, "kw": kw, "stratum": stratum}
        if stratum == "natural":
            op["natural"] = natural
        if stratum == "inject":
            op["fault"] = gen_fault(rng, cfg["exc_types"])
        ol.append(op)
    return {"cfg": cfg, "ops": ol}


def simplify_op(op):
    out = []
    if op.get("op") == "calc":
        if op.get("kw"):
            for k in sorted(op["kw"]):
                if k in ("cases", "fault", "n_procs"):
                    continue
                o = copy.deepcopy(op)
                del o["kw"][k]
                out.append(o)
        f = op.get("fault")
        if f:
            if f["exc"] != "InjectedFault":
                o = copy.deepcopy(op)
                o["fault"]["exc"] = "InjectedFault"
                out.append(o)
        if op.get("stratum") == "inject":
            o = copy.deepcopy(op)
            o["stratum"] = "none"
            o.pop("fault", None)
            out.append(o)
    elif op.get("op") == "template" and op["name"] not in ("feeder_dcline", "feeder"):
        out.append({"op": "template", "name": "feeder_dcline"})
        out.append({"op": "template", "name": "feeder"})
    return out


# ---------------------------------------------------------------------------------------------
def apply_natural(net, op):
    """put the op into a form that makes the real code raise; returns (kw, undo callable)"""
    kw = copy.deepcopy(op["kw"])
    nat = op.get("natural")
    undo = lambda: None
    if nat == "max_iter":
        kw["max_iteration"] = 1
        kw.setdefault("algorithm", "nr")
        if kw["algorithm"] in ("bfsw", "gs", "fdbx", "fdxb"):
            kw["max_iteration"] = 1
        kw["init"] = "flat"
    elif nat == "max_iter_raise":
        kw["max_iteration"] = 1
        kw["init"] = "flat"
        kw["raise_errors"] = True
    elif nat == "no_slack":
        old_e = net.ext_grid.in_service.copy()
        old_g = net.gen.slack.copy() if "slack" in net.gen else None
        net.ext_grid["in_service"] = False
        if old_g is not None:
            net.gen["slack"] = False

        def undo():
            net.ext_grid["in_service"] = old_e.reindex(net.ext_grid.index).fillna(True).astype(bool).values \
                if len(old_e) != len(net.ext_grid) else old_e.values
            if old_g is not None and len(old_g) == len(net.gen):
                net.gen["slack"] = old_g.values
    elif nat == "bad_algorithm":
        kw["algorithm"] = "no_such_algorithm"
    elif nat == "stale_results":
        kw["init"] = "results"
        kw.pop("algorithm", None)
        if len(net.res_bus):
            net.res_bus.drop(net.res_bus.index[-1], inplace=True)
    elif nat == "opf_maxit":
        kw["PDIPM_MAX_IT"] = 1
    elif nat == "opf_infeasible":
        old = net.bus[["min_vm_pu", "max_vm_pu"]].copy() if "min_vm_pu" in net.bus and "max_vm_pu" in net.bus else None
        net.bus["min_vm_pu"] = 1.2
        net.bus["max_vm_pu"] = 1.21

        def undo():
            if old is not None and len(old) == len(net.bus):
                net.bus["min_vm_pu"] = old["min_vm_pu"].values
                net.bus["max_vm_pu"] = old["max_vm_pu"].values
            else:
                net.bus["min_vm_pu"] = 0.9
                net.bus["max_vm_pu"] = 1.1
    return kw, undo


def _n_aux(net):
    return {"dcline": len(net.dcline), "b2b_vsc": len(net.b2b_vsc) if "b2b_vsc" in net else 0}


def diff_signature(kind, d, n_aux, stratum):
    what = d["kind"]
    if what in ("rows_added", "rows_removed", "index_changed"):
        n = abs(d.get("n", 0))
        rel = f"{d.get('n', 0):+d}"
        if d["table"] == "gen" and n_aux["dcline"] and n and n % n_aux["dcline"] == 0:
            rel = f"{'+' if d['n'] > 0 else '-'}{n // n_aux['dcline']}*n_dcline"
        elif d["table"] == "vsc" and n_aux["b2b_vsc"] and n and n % n_aux["b2b_vsc"] == 0:
            rel = f"{'+' if d['n'] > 0 else '-'}{n // n_aux['b2b_vsc']}*n_b2b_vsc"
        what = f"{what}:{rel}"
    elif what in ("values_changed", "col_removed"):
        what = f"{what}:{d['col']}"
    s = {"none": "success", "natural": "natural-failure", "inject": "injected"}[stratum]
    return f"C08|calc:{kind}|table:{d['table']}|{what}|{s}"


def execute(ep, ctx):
    net = None
    ctx.calc_cols = set()     # columns that calculations (not the user) added to element tables
    for i, op in enumerate(ep["ops"]):
        k = op["op"]
        if k == "template":
            net = ops.apply_template(op)
            ctx.event("template", op["name"])
            continue
        if net is None:
            ctx.event(k, "noop")
            continue
        if k != "calc":
            st, info = ops.apply_basic(net, op)
            if st == "ok" and (k == "drop_el" or op.get("gap")):
                ctx.probe("non_contiguous_index")
            ctx.event(k, op.get("et") or op.get("table"), st)
            ctx.sim["ops"] += 1
            continue
        _exec_calc(net, op, i, ctx)


def _exec_calc(net, op, i, ctx):
    kind, stratum = op["kind"], op["stratum"]
    ctx.sim["ops"] += 1
    ctx.sim["calculations"] += 1
    undo = lambda: None
    kw = copy.deepcopy(op["kw"])
    if stratum == "natural":
        kw, undo = apply_natural(net, op)
        ctx.fault_configured("natural-fail")
    if kw.get("consider_line_temperature") and len(net.line):
        # the user's input for this option (given before the calculation, so it is part of the snapshot)
        if "temperature_degree_celsius" not in net.line.columns:
            net.line["temperature_degree_celsius"] = 40.
        if "alpha" not in net.line.columns:
            net.line["alpha"] = 4.03e-3
    snap = oracles.snapshot(net)
    n_aux = _n_aux(net)
    fired = None
    exc = None
    if stratum == "inject":
        f = op["fault"]
        ctx.fault_configured(f"raise@{f['gran']}")
        dry = copy.deepcopy(net)
        counter = tracer.Tracer(gran=f["gran"])
        counter.run(lambda: ops.run_calc(dry, kind, kw))
        ctx.sim["trace_events"] += counter.n
        index = tracer.resolve_plan(counter, f)
        if index is None:
            _, exc = _plain(net, kind, kw)
        else:
            n_gen0 = len(net.gen)
            n_vsc0 = len(net.vsc) if "vsc" in net else 0

            def on_fire(info):
                if len(net.gen) > n_gen0 or ("vsc" in net and len(net.vsc) > n_vsc0):
                    ctx.probe("raised_while_aux_gens_present")

            tr = tracer.Tracer(gran=f["gran"], index=index, exc=tracer.EXC_TYPES[f["exc"]](f"ppsim fault #{index}"),
                               record_sites=False, on_fire=on_fire)
            _, exc = tr.run(lambda: ops.run_calc(net, kind, kw))
            fired = tr.fired
            if fired:
                ctx.fault_fired(f"raise@{f['gran']}")
                ctx.probe("injected_fired")
                ctx.sites.add(f"{fired['file']}:{fired['func']}")
                st = fired["stack"]
                if "_pd2ppc" in st:
                    ctx.probe("raised_inside__pd2ppc")
                if any(s in st for s in ("_run_newton_raphson_pf", "newtonpf", "_run_bfswpf", "_runpf_pypower",
                                         "opf", "_run_dc_pf", "_calc_ikss", "_calc_sc", "_run_ac_pf_without_qlims_enforced")):
                    ctx.probe("raised_inside_solver")
                if "_extract_results" in st or "_extract_results_3ph" in st or "_extract_results_sc" in st:
                    ctx.probe("raised_inside__extract_results")
                if "run_contingency" in st or "run_contingency_parallel" in st:
                    ctx.probe("raised_in_contingency_loop")
                if exc is None or not isinstance(exc, type(tr.exc)):
                    ctx.probe("swallowed_by_inner_handler")
    else:
        _, exc = _plain(net, kind, kw)
    if stratum == "natural":
        if exc is not None:
            ctx.fault_fired("natural-fail")
            ctx.probe("natural_failure")
    if stratum == "none" and exc is None:
        ctx.probe("success_path_checked")
    # the harness's own temporary edits are undone before comparing
    diffs, benign = oracles.diff_snapshot(snap, net, ignore_cols=ctx.calc_cols)
    ctx.calc_cols.update(snap["_new_cols"])
    for b in benign:
        ctx.benign[b.split(":")[0] + ":" + b.split(":")[-1].strip().split(" ")[0]] += 1
    ctx.conclusive += 1
    outcome = "ok" if exc is None else type(exc).__name__
    ctx.features.append(f"{kind}|{stratum}|{op.get('fault', {}).get('exc', '-')}|"
                        f"{(fired['file'] + ':' + fired['func']) if fired else '-'}|{outcome}")
    sigs = []
    for d in diffs:
        sig = diff_signature(kind, d, n_aux, stratum)
        if sig not in sigs:
            sigs.append(sig)
            where = f" after {f['exc']} injected at {fired['file']}:{fired['line']} ({fired['func']}), " \
                    f"{fired['gran']} event {fired['index']}" if fired else ""
            ctx.violation(sig, f"op{i} {kind}({kw}) -> {outcome}{where}: net.{d['table']} {d['kind']} "
                               f"{d.get('col') or ''} {d['detail']}", op=i)
    vm = None
    if exc is None and kind in ("runpp", "rundcpp") and len(net.res_bus):
        vm = [oracles.sig_round(float(x), 8) for x in net.res_bus.vm_pu.values[:6]]
    ctx.event("calc", kind, stratum, outcome, (fired or {}).get("func"), (fired or {}).get("line"), sigs, vm)
    if diffs:
        oracles.restore_snapshot(snap, net)
    undo()


def _plain(net, kind, kw):
    try:
        return ops.run_calc(net, kind, kw), None
    except BaseException as e:  # noqa
        return None, e


def _plain_call(fn):
    try:
        return fn(), None
    except BaseException as e:  # noqa
        return None, e
