"""C34 -- explicit power-flow arguments take precedence over stored user options.

State: net.user_pf_options across set_user_pf_options / runpp / failed runpp / save-load histories.
Oracle: OptionsModel (stored dict with merge/overwrite semantics, precedence passed > stored > default).
"""
import copy
import inspect

from .. import nets, ops, oracles, tracer
from . import c08

PROPERTY = "C34"
BUDGET = {"quick": 1500, "thorough": 40000}
WALL_CAP = {"quick": 120, "thorough": 1200}
RULE = ("Episodes = small net + 8-25 ops drawn from set_user_pf_options (merge/overwrite, values equal to and "
        "different from runpp's defaults), runpp with seeded explicitly passed arguments (keyword and positional, "
        "again including default-valued ones), failing runpp (natural and injected), JSON save/load of the net. "
        "After every runpp that reached option initialisation net._options is compared key by key with the "
        "precedence model. Non-trivial = at least one key was compared after a runpp with a non-empty stored "
        "dict; distinct = distinct (sorted stored keys, sorted passed keys, which passed values equal the default)."
        " runpp via run_control=True, init='results' after failed runs, derived options ('auto' iteration limit and init angles), delta_q, distributed_slack.")
COMPONENTS = {"real": ["set_user_pf_options, runpp option initialisation, to_json/from_json"],
              "stub": ["OptionsModel (reference model of stored options and precedence)"]}
ASSUMPTIONS = ["only option keys whose resolved value is a plain copy of the argument are compared; keys pandapower "
               "legitimately rewrites from the network (numba, lightsim2grid, voltage_depend_loads, 'auto' values) "
               "are excluded", "defaults are read from runpp's signature at run time"]
REACH_PROBES = ["passed_equals_default_with_conflicting_stored", "passed_differs_with_conflicting_stored",
                "stored_applied_without_passed", "runpp_failed_with_stored_options", "options_after_save_load",
                "runpp_via_run_control", "init_results_passed_after_failed_run"]

VALUES = {
    # (values close to, but different from, a float default are legal explicit arguments too)
    "tolerance_mva": [1e-8, 1e-6, 1e-4, 1e-9, 5e-9, 2e-8, 1e-10],
    "trafo_model": ["t", "pi"],
    "trafo_loading": ["current", "power"],
    "enforce_q_lims": [False, True],
    "check_connectivity": [True, False],
    "algorithm": ["nr", "iwamoto_nr", "bfsw"],
    "max_iteration": ["auto", 15, 25],
    "calculate_voltage_angles": [True, False],
    "init": ["auto", "flat", "dc", "results", "results"],
    "switch_rx_ratio": [2, 1.5, 2.0000001],
    "trafo3w_losses": ["hv", "star"],
    "v_debug": [False, True],
    "consider_line_temperature": [False],
    "distributed_slack": [False, True],
    "delta_q": [0, 0.01, 0.5],
}
KW_DEFAULTS = {"switch_rx_ratio": 2, "trafo3w_losses": "hv", "v_debug": False, "delta_q": 0}   # kwargs.get(...) defaults
OPTION_KEY = {"delta_q": "delta"}        # runpp argument -> name of the option it becomes
AUTO_MAX_ITERATION = {"nr": 10, "iwamoto_nr": 10, "bfsw": 100, "gs": 10000, "fdxb": 30, "fdbx": 30}
POSITIONAL = ["algorithm", "calculate_voltage_angles", "init", "max_iteration", "tolerance_mva", "trafo_model"]


def warm():
    import pandapower as pp
    nets.import_all_pandapower()
    nets.build_templates(["four_bus", "feeder", "case9"])
    for name in ("four_bus", "feeder", "case9"):
        for kw in ({}, {"algorithm": "iwamoto_nr"}, {"algorithm": "bfsw"}, {"enforce_q_lims": True},
                   {"trafo_model": "pi"}, {"init": "flat"}, {"check_connectivity": False}):
            try:
                pp.runpp(nets.get(name), **kw)
            except Exception:
                pass


def _defaults():
    import pandapower as pp
    sig = inspect.signature(pp.runpp)
    d = {k: p.default for k, p in sig.parameters.items() if p.default is not inspect.Parameter.empty}
    d.update(KW_DEFAULTS)
    return d


def _gen_kw(rng, n_max, p_default):
    keys = rng.sample(sorted(VALUES), rng.randint(0, n_max))
    kw = {}
    for k in keys:
        vals = VALUES[k]
        kw[k] = vals[0] if rng.random() < p_default else rng.choice(vals)
    return kw


def generate(rng, idx, tier):
    cfg = {"template": rng.choice(["four_bus", "feeder", "case9"]), "n_ops": rng.randint(8, 25),
           "p_default": rng.choice([0.3, 0.5, 0.7]), "fault_rate": rng.choice([0.0, 0.1, 0.2])}
    ol = [{"op": "template", "name": cfg["template"]}]
    for _ in range(cfg["n_ops"]):
        r = rng.random()
        if r < 0.3:
            ol.append({"op": "set_opts", "overwrite": rng.random() < 0.25, "kw": _gen_kw(rng, 4, cfg["p_default"])})
        elif r < 0.85:
            kw = _gen_kw(rng, 4, cfg["p_default"])
            # (run_control=True: runpp hands all of its parameters on to run_control, which calls runpp again)
            op = {"op": "runpp", "kw": kw, "positional": rng.random() < 0.15, "run_control": rng.random() < 0.15}
            r2 = rng.random()
            if r2 < cfg["fault_rate"]:
                op["fault"] = c08.gen_fault(rng, ["InjectedFault", "KeyboardInterrupt"])
            elif r2 < cfg["fault_rate"] + 0.08:
                op["natural"] = rng.choice(["bad_algorithm", "no_slack"])
            ol.append(op)
        elif r < 0.93:
            ol.append({"op": "save_load"})
        else:
            ol.append(ops.gen_set(rng))
    return {"cfg": cfg, "ops": ol}


def simplify_op(op):
    out = []
    if op.get("op") in ("runpp", "set_opts") and op.get("kw"):
        for k in sorted(op["kw"]):
            o = copy.deepcopy(op)
            del o["kw"][k]
            out.append(o)
    if op.get("op") == "runpp":
        for k in ("fault", "natural", "positional", "run_control"):
            if op.get(k):
                o = copy.deepcopy(op)
                o.pop(k)
                out.append(o)
    return out


class OptionsModel:
    def __init__(self):
        self.stored = {}

    def set(self, overwrite, kw):
        if overwrite:
            self.stored = {}
        self.stored.update(kw)

    def resolve(self, key, passed, defaults):
        if key in passed:
            return passed[key], "passed"
        if key in self.stored:
            return self.stored[key], "stored"
        return defaults.get(key), "default"


def _known_default_clash(key, passed, model, defaults):
    """the argument is passed with its default value while another value is stored (known finding of C34)"""
    return key in passed and key in model.stored and passed[key] == defaults.get(key) and \
        model.stored[key] != passed[key]


def _expected_init(v, had_results=False):
    if v == "flat":
        return ("flat", "flat")
    if v == "dc":
        return ("flat", "dc")
    if v == "results" and had_results:
        # (with an empty res_bus pandapower documents the fall-back to "auto")
        return ("results", "results")
    return None


def execute(ep, ctx):
    import pandapower as pp
    net = None
    model = OptionsModel()
    defaults = _defaults()
    for i, op in enumerate(ep["ops"]):
        k = op["op"]
        if k == "template":
            net = ops.apply_template(op)
            model = OptionsModel()
            model.stored = dict(net.user_pf_options)
            ctx.event("template", op["name"])
            continue
        if net is None:
            continue
        ctx.sim["ops"] += 1
        if k == "set":
            st, _ = ops.apply_basic(net, op)
            ctx.event("set", st)
        elif k == "set_opts":
            pp.set_user_pf_options(net, overwrite=op["overwrite"], **op["kw"])
            model.set(op["overwrite"], op["kw"])
            ctx.event("set_opts", op["overwrite"], sorted(op["kw"]))
            if oracles.canon(net.user_pf_options) != oracles.canon(model.stored):
                ctx.violation("C34|user_pf_options|set-semantics",
                              f"op{i}: set_user_pf_options(overwrite={op['overwrite']}, {op['kw']}) -> "
                              f"{net.user_pf_options} but model {model.stored}", op=i)
            ctx.conclusive += 1
        elif k == "save_load":
            s = pp.to_json(net)
            net = pp.from_json_string(s)
            ctx.event("save_load")
            ctx.probe("options_after_save_load")
            ctx.conclusive += 1
            if oracles.canon(dict(net.user_pf_options)) != oracles.canon(model.stored):
                ctx.violation("C34|user_pf_options|lost-in-save-load",
                              f"op{i}: after to_json/from_json_string user_pf_options = {net.user_pf_options}, "
                              f"model {model.stored}", op=i)
        elif k == "runpp":
            _exec_runpp(net, op, i, ctx, model, defaults)


def _exec_runpp(net, op, i, ctx, model, defaults):
    import pandapower as pp
    passed = dict(op["kw"])
    undo = lambda: None
    if op.get("natural") == "bad_algorithm":
        passed["algorithm"] = "no_such_algorithm"
    elif op.get("natural") == "no_slack":
        old = net.ext_grid.in_service.copy()
        net.ext_grid["in_service"] = False

        def undo():
            net.ext_grid["in_service"] = old.values
    stored_before = copy.deepcopy(dict(net.user_pf_options))
    had_results = len(net.res_bus) > 0
    if had_results and passed.get("init") == "results" and net.res_bus.vm_pu.isna().all():
        ctx.probe("init_results_passed_after_failed_run")
    opts_before = net.get("_options", None)
    args = []
    kwargs = dict(passed)
    if op.get("positional"):
        # pass a prefix of the signature positionally (up to the last positional-able key present)
        last = max((POSITIONAL.index(k) for k in passed if k in POSITIONAL), default=-1)
        for k in POSITIONAL[:last + 1]:
            v = kwargs.pop(k) if k in kwargs else defaults[k]
            args.append(v)
            passed[k] = v       # a positionally passed default IS an explicitly passed value
    if op.get("run_control"):
        from pandapower.control import ConstControl
        if not len(net.controller) and len(net.load):
            ConstControl(net, "load", "p_mw", element_index=net.load.index[0])
        kwargs["run_control"] = True
        ctx.probe("runpp_via_run_control")
    call = lambda: pp.runpp(net, *args, **kwargs)
    fired = None
    if op.get("fault"):
        f = op["fault"]
        ctx.fault_configured(f"raise@{f['gran']}")
        dry = copy.deepcopy(net)
        counter = tracer.Tracer(gran=f["gran"])
        counter.run(lambda: pp.runpp(dry, *args, **kwargs))
        index = tracer.resolve_plan(counter, f)
        if index is None:
            _, exc = c08._plain_call(call)
        else:
            tr = tracer.Tracer(gran=f["gran"], index=index, exc=tracer.EXC_TYPES[f["exc"]]("ppsim fault"),
                               record_sites=False)
            _, exc = tr.run(call)
            fired = tr.fired
            if fired:
                ctx.fault_fired(f"raise@{f['gran']}")
                ctx.sites.add(f"{fired['file']}:{fired['func']}")
    else:
        _, exc = c08._plain_call(call)
    undo()
    outcome = "ok" if exc is None else type(exc).__name__
    if op.get("natural"):
        ctx.fault_configured("natural-fail")
        if exc is not None:
            ctx.fault_fired("natural-fail")
    if exc is not None and model.stored:
        ctx.probe("runpp_failed_with_stored_options")
    # stored options change only through set_user_pf_options
    if oracles.canon(dict(net.user_pf_options)) != oracles.canon(stored_before):
        ctx.violation("C34|user_pf_options|stored-mutated",
                      f"op{i}: runpp({passed}) -> {outcome} changed net.user_pf_options "
                      f"{stored_before} -> {dict(net.user_pf_options)}", op=i)
    reached = net.get("_options", None) is not opts_before and isinstance(net.get("_options", None), dict) and \
        "tolerance_mva" in net._options and "algorithm" in net._options
    if fired and "_powerflow" not in fired["stack"]:
        reached = False      # interrupted while the options were being initialised: nothing complete to compare
    sigs = []
    compared = 0
    if reached:
        o = net._options
        for key in sorted(VALUES):
            want, src = model.resolve(key, passed, defaults)
            if key == "init":
                exp = _expected_init(want, had_results)
                if "init_vm_pu" in model.stored or "init_va_degree" in model.stored:
                    continue
                if exp is None and want == "auto":
                    # derived from the resolved calculate_voltage_angles (documented meaning of "auto"); not judged
                    # where that argument itself is in the known passed==default situation
                    if _known_default_clash("calculate_voltage_angles", passed, model, defaults):
                        continue
                    cva, _ = model.resolve("calculate_voltage_angles", passed, defaults)
                    got = o.get("init_va_degree")
                    ok = got == ("dc" if cva else "flat")
                    want = f"auto -> init_va_degree {'dc' if cva else 'flat'} (calculate_voltage_angles={cva})"
                elif exp is None:
                    continue
                else:
                    got = (o.get("init_vm_pu"), o.get("init_va_degree"))
                    ok = got == exp
            elif key == "max_iteration":
                got = o.get(key)
                if want == "auto":
                    # derived from the resolved algorithm (documented meaning of "auto")
                    alg, _ = model.resolve("algorithm", passed, defaults)
                    if alg not in AUTO_MAX_ITERATION or _known_default_clash("algorithm", passed, model, defaults):
                        continue
                    ok = got == AUTO_MAX_ITERATION[alg]
                    want = f"auto -> {AUTO_MAX_ITERATION[alg]} for algorithm {alg}"
                else:
                    ok = got == want
            elif key == "algorithm" and want == "no_such_algorithm":
                got = o.get(key)
                ok = got == want
            else:
                got = o.get(OPTION_KEY.get(key, key))
                ok = got == want and type(got) is type(want) or (got == want and isinstance(got, (int, float)))
            compared += 1
            if key in passed and key in model.stored and model.stored[key] != passed[key]:
                ctx.probe("passed_equals_default_with_conflicting_stored" if passed[key] == defaults.get(key)
                          else "passed_differs_with_conflicting_stored")
            if key not in passed and key in model.stored:
                ctx.probe("stored_applied_without_passed")
            if not ok:
                if src == "passed" and key in model.stored and passed[key] == defaults.get(key):
                    rel = "passed==default overridden by stored"
                elif src == "passed":
                    rel = "passed!=default overridden"
                elif src == "stored":
                    rel = "stored ignored"
                else:
                    rel = "default not applied"
                sig = f"C34|{rel}"
                if sig not in sigs:
                    sigs.append(sig)
                    ctx.violation(sig, f"op{i}: stored={model.stored} runpp(passed={passed}"
                                       f"{' positionally' if args else ''}) -> {outcome}: net._options[{key!r}] = "
                                       f"{got!r}, precedence model says {want!r} ({src})", op=i)
        if compared and model.stored:
            ctx.conclusive += 1
            eq_def = sorted(k for k in passed if passed[k] == defaults.get(k))
            ctx.features.append(f"{sorted(model.stored)}|{sorted(passed)}|{eq_def}|{outcome}")
        else:
            ctx.inconclusive += 1
    else:
        ctx.inconclusive += 1
    ctx.event("runpp", sorted(passed), outcome, reached, compared, sigs, (fired or {}).get("func"))
