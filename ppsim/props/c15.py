"""C15 -- parallel contingency analysis equals the sequential analysis.

Seam: the `mp` name inside pandapower.contingency.contingency_parallel (and multiprocessing.Pool)
is replaced by SimPool: worker count, chunking, chunk->worker assignment and completion order come
from the fault plan; every chunk crosses a pickle boundary.  Oracle: sequential run_contingency.
"""
import copy

import numpy as np
import pandas as pd

from .. import nets, ops, oracles, simpool
from . import c08, c14

PROPERTY = "C15"
BUDGET = {"quick": 300, "thorough": 8000}
WALL_CAP = {"quick": 150, "thorough": 1500}
RULE = ("Episodes = meshed template net + seeded edits + one N-1 case set evaluated (a) sequentially by "
        "run_contingency on a scrubbed copy (reference, recorded per case) and (b) by run_contingency_parallel under "
        "2-4 seeded pool schedules (n_procs 1..6/None, chunk size, chunk->worker assignment, completion permutation). "
        "Non-trivial = a schedule's returned dict was compared key by key with the reference; distinct = distinct "
        "(template, case counts, n_procs, chunk size, completion permutation, failed-case pattern)."
        ' Separate N-0/N-1 option dicts, recycle option, case index forms; cause_index compared also where no outage is the cause.')
COMPONENTS = {"real": ["run_contingency_parallel incl. the worker function and the aggregation", "run_contingency "
                       "(reference)", "pickle boundary for every task chunk"],
              "stub": ["SimPool/SimMP (in-process workers, planned chunking/assignment/completion order)"]}
ASSUMPTIONS = ["the pool is a stub: worker-process-global state and real scheduling are not simulated",
               "cause_* may differ from the sequential run only between cases that tie within 1e-6 in the recorded history"]
REACH_PROBES = ["chunks_completed_out_of_task_order", "n_procs_gt_1", "n_procs_none", "case_failed_natural",
                "worker_raised", "schedules_compared"]


def warm():
    c14.warm()
    from pandapower.contingency.contingency_parallel import run_contingency_parallel
    net = nets.get("case9")
    try:
        run_contingency_parallel(net, {"line": {"index": [0, 1]}}, n_procs=1)
    except Exception:
        pass


def gen_schedule(rng):
    n = rng.choice([1, 2, 2, 3, 4, 6, None])
    return {"n_procs": n, "chunksize": rng.choice([None, None, 1, 2, 3]),
            "assign": [rng.randrange(8) for _ in range(rng.randint(0, 6))],
            "complete": [rng.randrange(100) for _ in range(rng.randint(0, 8))],
            "cpu_count": rng.choice([2, 3, 5])}


def generate(rng, idx, tier):
    cfg = {"template": c08._wchoice(rng, c14.TEMPLATES), "load_scale": rng.choice([1.0, 1.0, 1.5, 2.2, 3.0]),
           "limit": rng.choice([100., 60., 30.])}
    ol = [{"op": "template", "name": cfg["template"]}, {"op": "scale_loads", "f": cfg["load_scale"]},
          {"op": "limits", "v": cfg["limit"], "nminus1": rng.random() < 0.3}]
    for _ in range(rng.randint(0, 3)):
        ol.append(ops.gen_create(rng, ["line", "line", "load", "sgen"]))
    for _ in range(rng.randint(0, 2)):
        ol.append(ops.gen_toggle(rng, [("line", "in_service"), ("trafo", "in_service"), ("load", "in_service")]))
    ol.append({"op": "parallel", "cases": c14.gen_cases(rng), "raise_errors": rng.random() < 0.15,
               "write_to_net": rng.random() < 0.7,
               "pf": rng.choice([{}, {}, {"max_iteration": 6}, {"numba": False}]),
               "schedules": [gen_schedule(rng) for _ in range(rng.randint(2, 4))],
               "pf_n0": rng.choice([None, None, None, {"trafo_model": "pi"}, {"tolerance_mva": 1e-6}]),
               "pf_n1": rng.choice([None, None, None, {"trafo_model": "pi"}, {"trafo_loading": "power"},
                                    {"enforce_q_lims": True}]),
               "recycle_kw": rng.random() < 0.15,
               "index_form": rng.choice(["list", "list", "array", "pd_index", "tuple"])})
    return {"cfg": cfg, "ops": ol}


def simplify_op(op):
    out = []
    if op.get("op") == "parallel":
        if len(op["schedules"]) > 1:
            for j in range(len(op["schedules"])):
                o = copy.deepcopy(op); del o["schedules"][j]; out.append(o)
        for j, s in enumerate(op["schedules"]):
            for k, v in (("complete", []), ("assign", []), ("chunksize", None)):
                if s.get(k):
                    o = copy.deepcopy(op); o["schedules"][j][k] = v; out.append(o)
            if s.get("n_procs") not in (2,):
                o = copy.deepcopy(op); o["schedules"][j]["n_procs"] = 2; out.append(o)
        for et in ("trafo3w", "trafo", "line"):
            ks = op["cases"]["spec"].get(et) or []
            if ks and sum(len(v) for v in op["cases"]["spec"].values()) > 1:
                for j in range(len(ks)):
                    o = copy.deepcopy(op); del o["cases"]["spec"][et][j]; out.append(o)
        if op.get("pf"):
            o = copy.deepcopy(op); o["pf"] = {}; out.append(o)
    if op.get("op") == "scale_loads" and op["f"] != 1.0:
        out.append({"op": "scale_loads", "f": 1.0})
    return out


def execute(ep, ctx):
    net = None
    for i, op in enumerate(ep["ops"]):
        k = op["op"]
        if k == "template":
            net = ops.apply_template(op)
            ctx.event("template", op["name"])
            continue
        if net is None:
            continue
        ctx.sim["ops"] += 1
        if k == "scale_loads":
            net.load["scaling"] = float(op["f"])
        elif k == "limits":
            for et in c14.BRANCHES:
                if len(net[et]):
                    net[et]["max_loading_percent"] = float(op["v"])
                    if op.get("nminus1"):
                        net[et]["max_loading_percent_nminus1"] = float(op["v"]) * 1.2
        elif k in ("create", "set", "toggle"):
            st, _ = ops.apply_basic(net, op)
            ctx.event(k, st)
        elif k == "parallel":
            _exec_parallel(net, op, i, ctx)


def _exec_parallel(net, op, i, ctx):
    from pandapower.contingency import run_contingency
    import pandapower.contingency.contingency_parallel as cp
    case_dict = c14.build_case_dict(net, op["cases"])
    n_cases = sum(len(v["index"]) for v in case_dict.values())
    if n_cases == 0:
        ctx.event("parallel", "no-cases")
        return
    kw = dict(op["pf"])
    if op["raise_errors"]:
        kw["raise_errors"] = True
    if op.get("recycle_kw"):
        kw["recycle"] = {"bus_pq": True, "trafo": False, "gen": False}
    if op.get("pf_n0") is not None or op.get("pf_n1") is not None:
        kw["pf_options"] = dict(op.get("pf_n0") or {})
        kw["pf_options_nminus1"] = dict(op.get("pf_n1") or {})
        ctx.probe("separate_n0_n1_options")
    form = op.get("index_form", "list")
    base_cases = case_dict

    def shaped():
        out = copy.deepcopy(base_cases)
        for v_ in out.values():
            ix = v_["index"]
            v_["index"] = np.array(ix, dtype=np.int64) if form == "array" else pd.Index(ix) if form == "pd_index" \
                else tuple(ix) if form == "tuple" else list(ix)
        return out
    # reference: sequential analysis on a scrubbed copy, recorded per case
    ref_net = oracles.scrubbed_copy(net)
    rec = c14.Recorder(ref_net, c14._NullCtx(), [])
    ref, ref_exc = c08._plain_call(lambda: run_contingency(ref_net, shaped(), write_to_net=False,
                                                           contingency_evaluation_function=rec, **kw))
    failed = [c for c in rec.calls if c["raised"]]
    for _ in failed:
        ctx.probe("case_failed_natural")
    ok_causes = {}
    if ref_exc is None:
        exp, over, _ = c14.extremes_model(ref_net, rec.calls, case_dict)
        ok_causes = {t: exp[t].get("ok_causes") for t in exp}
    outs = []
    for s_i, plan in enumerate(op["schedules"]):
        ctx.fault_configured("pool-schedule")
        live = oracles.scrubbed_copy(net)
        snap = oracles.snapshot(live)
        sched = simpool.Schedule(dict(plan))
        before = dict(simpool.SimPool.stats)
        undo = simpool.install(cp, sched, cpu_count=plan.get("cpu_count", 4))
        try:
            res, exc = c08._plain_call(lambda: cp.run_contingency_parallel(
                live, shaped(), write_to_net=op["write_to_net"], n_procs=plan["n_procs"], **kw))
        finally:
            undo()
        st = simpool.SimPool.stats
        if st["maps"] > before["maps"]:
            ctx.fault_fired("pool-schedule")
            ctx.probe("n_procs_gt_1")
            ctx.sim["pool_chunks"] += st["chunks"] - before["chunks"]
            ctx.sim["pool_tasks"] += st["tasks"] - before["tasks"]
            if st["out_of_order"] > before["out_of_order"]:
                ctx.probe("chunks_completed_out_of_task_order")
        if plan["n_procs"] is None:
            ctx.probe("n_procs_none")
        label = f"schedule{s_i} n_procs={plan['n_procs']} chunksize={plan.get('chunksize')} " \
                f"complete={plan.get('complete')}"
        outs.append((plan, res, exc))
        sigs = []

        def bad(key, kind, detail):
            sig = f"C15|{key}|{kind}"
            if sig not in sigs:
                sigs.append(sig)
                ctx.violation(sig, f"op{i} {label}: {detail}", op=i)

        # the caller's net is left as it was
        diffs, _ = oracles.diff_snapshot(snap, live)
        for d in diffs[:2]:
            bad(f"restore:{d['table']}.{d.get('col') or d['kind']}", "caller net changed",
                f"net.{d['table']} {d['kind']} {d.get('col') or ''} {d['detail']}")
        if (exc is None) != (ref_exc is None):
            if exc is not None:
                ctx.probe("worker_raised")
            bad("outcome", "differs from sequential",
                f"parallel -> {'ok' if exc is None else type(exc).__name__ + ': ' + str(exc)[:100]}, sequential -> "
                f"{'ok' if ref_exc is None else type(ref_exc).__name__}")
        elif exc is not None:
            ctx.probe("worker_raised")
        else:
            _compare(res, ref, ok_causes, ref_net, bad, "differs from sequential")
        ctx.conclusive += 1
        ctx.probe("schedules_compared")
        ctx.features.append(f"{ctx.ep['cfg']['template']}|{ {k: len(v['index']) for k, v in case_dict.items()} }|"
                            f"{plan['n_procs']}|{plan.get('chunksize')}|{sched.completion_order(6)}|{len(failed)}")
        ctx.event("schedule", s_i, plan["n_procs"], "ok" if exc is None else type(exc).__name__, sched.log, sigs)
    # all schedules agree with each other
    oks = [(p, r) for p, r, e in outs if e is None]
    for a in range(1, len(oks)):
        sigs2 = []

        def bad2(key, kind, detail):
            sig = f"C15|{key}|{kind}"
            if sig not in sigs2:
                sigs2.append(sig)
                ctx.violation(sig, f"op{i} schedules {oks[0][0]} vs {oks[a][0]}: {detail}", op=i)
        _compare(oks[a][1], oks[0][1], ok_causes, ref_net, bad2, "differs between schedules")


def _compare(res, ref, ok_causes, net, bad, kind):
    if set(res) != set(ref):
        bad("keys", kind, f"element keys {sorted(res)} vs {sorted(ref)}")
    for t in ref:
        if t not in res:
            continue
        if set(res[t]) != set(ref[t]):
            bad(f"keys:{t}", kind, f"{t}: keys {sorted(set(res[t]) ^ set(ref[t]))} present on one side only")
        for key, want in ref[t].items():
            if key not in res[t]:
                continue
            got = res[t][key]
            if key in ("cause_element", "cause_index"):
                continue
            if key == "causes_overloading" or key == "index":
                if not np.array_equal(np.asarray(got), np.asarray(want)):
                    bad(f"{key}:{t}", kind, f"{t}.{key}: {list(got)[:8]} vs {list(want)[:8]}")
                continue
            d = oracles.compare_arrays(np.asarray(got, dtype=float), np.asarray(want, dtype=float), 1e-6, 1e-6)
            if d:
                bad(f"{key}:{t}", kind, f"{t}.{key}: {d[0]} {d[1]}")
        if t != "bus" and "cause_index" in res[t] and "cause_index" in ref[t]:
            for j in range(len(ref[t]["cause_index"])):
                g = (res[t]["cause_element"][j], int(res[t]["cause_index"][j])) \
                    if res[t]["cause_element"][j] is not None else None
                w = (ref[t]["cause_element"][j], int(ref[t]["cause_index"][j])) \
                    if ref[t]["cause_element"][j] is not None else None
                if g is None and w is None and int(res[t]["cause_index"][j]) != int(ref[t]["cause_index"][j]):
                    # "all values": also where no outage is the cause, both runs report the same (defined) value
                    bad(f"cause_index-without-cause:{t}", kind,
                        f"{t} #{j}: no cause element, cause_index {int(res[t]['cause_index'][j])} vs "
                        f"{int(ref[t]['cause_index'][j])}")
                    break
                if g != w:
                    okset = (ok_causes.get(t) or [set()] * (j + 1))[j] if ok_causes.get(t) else set()
                    if g is None or w is None:
                        if okset:
                            bad(f"cause:{t}", kind, f"{t} #{j}: cause {g} vs {w}")
                            break
                    elif not (g in okset and w in okset):
                        bad(f"cause:{t}", kind, f"{t} #{j}: cause {g} vs {w} (not a tie in the recorded history)")
                        break
