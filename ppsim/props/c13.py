"""C13 -- controller loop terminates with converged controllers and fresh results.

The schedule is pandapower's own (levels/orders); the simulator records it: every controller method
call and every `run` invocation is stamped with the global event sequence number.  Fault seam: the
`run` callback (fails at planned invocations).  Probe controllers exercise the liveness bound.
"""
import copy

import numpy as np
import pandas as pd

from .. import nets, ops, oracles
from . import c08

PROPERTY = "C13"
BUDGET = {"quick": 800, "thorough": 25000}
WALL_CAP = {"quick": 150, "thorough": 1500}
RULE = ("Episodes = feeder net with 2W/3W tap changers + 1-5 controllers (DiscreteTapControl band / "
        "from_tap_step_percent, ContinuousTapControl, ConstControl without data source, probe controllers) with "
        "seeded level (scalar/list), order, in_service, sides, start taps, bands (also narrower than a tap step), "
        "max_iter 1..30, planned failures of run invocations, continue_on_divergence; 1-3 run_control / "
        "runpp(run_control=True) calls on the same net with edits in between. Non-trivial = a call whose recorded "
        "event history was checked by the five oracles; distinct = distinct (controller class multiset, number of "
        "levels, outcome class, max_iter hit, failure pattern, call index)."
        ' Tap changers of 3W transformers on any winding, 180 degree tap steps, vectorised controllers (two transformers, list/array/Index), float and negative levels/orders, planned failure pairs (an evaluation and its retry).')
COMPONENTS = {"real": ["run_control / control_implementation / get_controller_order", "DiscreteTapControl, "
                       "ContinuousTapControl, ConstControl", "runpp inside the recording wrapper"],
              "stub": ["probe controllers (converge after n steps / never / flip-flop)", "recording wrappers on "
                       "controller methods", "failing run wrapper"]}
ASSUMPTIONS = ["check_each_level stays at its default (True)", "ContinuousTapControl(check_tap_bounds=False) is a "
               "user-chosen relaxation: tap bounds are then not required", "probe controllers change the net only in "
               "control_step", "result equality: |a-b| <= 1e-6 + 1e-6|b| against runpp on a scrubbed copy"]
REACH_PROBES = ["control_loop_hit_max_iter", "run_invocation_failed", "multi_level", "tap_at_limit_on_return",
                "second_call_on_same_net", "probe_controller_never_converges", "returned_normally",
                "trafo3w_tap_changer_on_mv_winding", "vectorised_tap_controller",
                "tap_step_at_180_degrees"]

TEMPLATES = [("feeder", 4), ("feeder_t3w", 3), ("feeder_taptable", 1)]


def warm():
    import pandapower as pp
    from pandapower.control import DiscreteTapControl, ContinuousTapControl, run_control
    nets.import_all_pandapower()
    nets.build_templates([t for t, _ in TEMPLATES])
    for name in ("feeder", "feeder_t3w"):
        net = nets.get(name)
        DiscreteTapControl(net, 0, 0.99, 1.01)
        ContinuousTapControl(net, 1, 1.0)
        try:
            run_control(net)
        except Exception:
            pass


def gen_controller(rng):
    kind = c08._wchoice(rng, [("discrete", 5), ("discrete_step", 2), ("continuous", 3), ("const", 2), ("probe", 3),
                                ("characteristic", 2)])
    lvl = rng.choice([0, 0, 0, 1, 2, [0, 1], [1, 2], -1, 0.5, [0.5, 2]])
    c = {"op": "controller", "kind": kind, "level": lvl, "order": rng.choice([0, 0, 1, 2, -1, -2.5, 10]),
         "in_service": rng.random() < 0.9}
    if kind in ("discrete", "discrete_step", "continuous"):
        c.update(element=rng.choice(["trafo", "trafo", "trafo3w"]), row=rng.randrange(100),
                 side=rng.choice(["lv", "lv", "hv", "mv"]), vm_set=round(rng.uniform(0.96, 1.04), 3),
                 half=rng.choice([0.02, 0.015, 0.01, 0.004, 0.001]), tol=rng.choice([1e-3, 1e-3, 5e-3]),
                 bounds=rng.random() < 0.8, hunting=rng.choice([None, None, 3]),
                 multi=rng.random() < 0.2,       # one controller object for two transformers (list of indices)
                 index_form=rng.choice(["list", "list", "array", "pd_index"]))
    elif kind == "const":
        c.update(element=rng.choice(["load", "sgen"]), variable="p_mw", row=rng.randrange(100))
    elif kind == "characteristic":
        # Q(V) droop of an sgen: q_mvar as a piecewise linear function of the bus voltage
        c.update(row=rng.randrange(100), slope=rng.choice([0.5, 2.0, 5.0]), tol=rng.choice([1e-3, 1e-4]))
    else:
        c.update(mode=rng.choice(["after_n", "after_n", "never", "flipflop"]), n=rng.randint(0, 6),
                 target=rng.randrange(100))
    return c


def generate(rng, idx, tier):
    cfg = {"template": c08._wchoice(rng, TEMPLATES)}
    ol = [{"op": "template", "name": cfg["template"]}]
    for _ in range(rng.randint(0, 3)):
        # start taps anywhere in the range and - biased - exactly at the limits; tap changer side hv or lv
        ol.append({"op": "start_tap", "element": rng.choice(["trafo", "trafo", "trafo3w"]), "row": rng.randrange(100),
                   "frac": rng.choice([0.0, 1.0, round(rng.random(), 3), round(rng.random(), 3)]),
                   "neg_step": rng.random() < 0.1, "tap_side": rng.choice([None, "hv", "lv", "lv", "mv", "mv"]),
                   "eg_vm": rng.choice([None, None, 0.96, 1.06]),
                   "step_degree": rng.choice([None, None, None, 180.0, 0.0])})
        if ol[-1]["tap_side"] == "mv":
            ol[-1]["element"] = "trafo3w"       # only a three-winding transformer has a mv winding
    for _ in range(rng.randint(1, 5)):
        ol.append(gen_controller(rng))
    for call in range(rng.randint(1, 3)):
        ol.append({"op": "run_control", "via": rng.choice(["run_control", "run_control", "runpp"]),
                   "max_iter": rng.choice([1, 2, 3, 5, 10, 30, 30]),
                   "continue_on_divergence": rng.random() < 0.4,
                   "fail_at": sorted(rng.sample(range(1, 10), rng.choice([0, 0, 0, 1, 2]))),
                   "kw": rng.choice([{}, {}, {"numba": False}])})
        if len(ol[-1]["fail_at"]) == 2 and rng.random() < 0.6:
            # an evaluation AND its single retry fail (the retry follows at once): early in the loop, where the
            # failed pair can be the last evaluation before the controllers report convergence
            k0 = rng.randint(1, 4)
            ol[-1]["fail_at"] = [k0, k0 + 1]
        if rng.random() < 0.7:
            ol.append(ops.gen_set(rng))
    return {"cfg": cfg, "ops": ol}


def simplify_op(op):
    out = []
    if op.get("op") == "run_control":
        for k, v in (("fail_at", []), ("kw", {}), ("via", "run_control"), ("continue_on_divergence", False),
                     ("max_iter", 30)):
            if op.get(k) != v:
                o = copy.deepcopy(op); o[k] = v; out.append(o)
    if op.get("op") == "controller":
        for k, v in (("level", 0), ("order", 0), ("in_service", True), ("hunting", None), ("half", 0.02),
                     ("side", "lv"), ("bounds", True)):
            if k in op and op.get(k) != v:
                o = copy.deepcopy(op); o[k] = v; out.append(o)
    return out


# ---------------------------------------------------------------------------------------------
class LivenessAbort(BaseException):
    pass


def make_probe_controller():
    from pandapower.control.basic_controller import Controller

    class ProbeController(Controller):
        """converges after n control steps / never / alternates; changes the net only in control_step"""

        def __init__(self, net, mode, n, load_index, **kw):
            super().__init__(net, **kw)
            self.mode, self.n, self.load_index = mode, n, load_index
            self.steps = 0
            self.flip = False

        def initialize_control(self, net):
            self.steps = 0

        def is_converged(self, net):
            if self.mode == "never":
                return False
            if self.mode == "flipflop":
                self.flip = not self.flip
                return self.flip and self.steps >= self.n
            return self.steps >= self.n

        def control_step(self, net):
            self.steps += 1
            if self.load_index is not None and self.load_index in net.load.index:
                # a bounded, deterministic nudge of one load (so that a power flow is really needed)
                net.load.at[self.load_index, "q_mvar"] = float(net.load.at[self.load_index, "q_mvar"]) + \
                    (0.001 if self.steps % 2 else -0.001)

    return ProbeController


def _trafo_row(net, element, row):
    if element not in net or len(net[element]) == 0:
        element = "trafo"
    cands = [i for i in net[element].index if not pd.isna(net[element].at[i, "tap_pos"])
             and not pd.isna(net[element].at[i, "tap_step_percent"])]
    r = ops.pick(cands, row)
    return element, r


def execute(ep, ctx):
    import pandapower as pp
    from pandapower.control import DiscreteTapControl, ContinuousTapControl, ConstControl
    Probe = make_probe_controller()
    net = None
    created = []          # (controller object, op)
    n_calls = 0
    for i, op in enumerate(ep["ops"]):
        k = op["op"]
        if k == "template":
            net = ops.apply_template(op)
            ctx.event("template", op["name"])
            continue
        if net is None:
            continue
        ctx.sim["ops"] += 1
        if k == "start_tap":
            el, r = _trafo_row(net, op["element"], op["row"])
            if r is None:
                continue
            lo, hi = int(net[el].at[r, "tap_min"]), int(net[el].at[r, "tap_max"])
            net[el].at[r, "tap_pos"] = int(round(lo + op["frac"] * (hi - lo)))
            tabled = "tap_dependency_table" in net[el].columns and bool(net[el].at[r, "tap_dependency_table"])
            if op.get("neg_step") and not tabled:
                # (with a tap dependency table the ratio comes from the table: a negative tap_step_percent would
                # contradict it - an inconsistent input, not a controller property)
                net[el].at[r, "tap_step_percent"] = -abs(float(net[el].at[r, "tap_step_percent"]))
            if op.get("tap_side") and (el == "trafo3w" or op["tap_side"] != "mv"):
                # (the tap changer of a three-winding transformer may sit on any of its three windings)
                net[el].at[r, "tap_side"] = op["tap_side"]
                if el == "trafo3w" and op["tap_side"] == "mv":
                    ctx.probe("trafo3w_tap_changer_on_mv_winding")
            if op.get("step_degree") is not None and not tabled and "tap_step_degree" in net[el].columns and \
                    str(net[el].at[r, "tap_changer_type"] if "tap_changer_type" in net[el].columns else "Ratio") \
                    in ("Ratio", "None", "nan"):
                # a ratio tap changer whose step acts at 180 degrees lowers the ratio with rising tap position
                net[el].at[r, "tap_step_degree"] = float(op["step_degree"])
                if op["step_degree"] == 180.0:
                    ctx.probe("tap_step_at_180_degrees")
            if op.get("eg_vm"):
                net.ext_grid["vm_pu"] = op["eg_vm"]     # pushes voltages towards / beyond the bands
            ctx.event("start_tap", el, int(r), int(net[el].at[r, "tap_pos"]))
        elif k == "set":
            st, _ = ops.apply_basic(net, op)
            ctx.event("set", st)
        elif k == "controller":
            _PROBE[0] = ctx.probe
            c = _create_controller(net, op, Probe, DiscreteTapControl, ContinuousTapControl, ConstControl)
            if c is not None:
                created.append((c, op))
                ctx.event("controller", op["kind"], str(op["level"]), op["order"], op["in_service"])
        elif k == "run_control":
            n_calls += 1
            if n_calls > 1:
                ctx.probe("second_call_on_same_net")
            _exec_run_control(net, op, i, ctx, created, n_calls)


_PROBE = [None]


def _create_controller(net, op, Probe, Discrete, Continuous, Const):
    kind = op["kind"]
    common = dict(level=op["level"], order=op["order"], in_service=op["in_service"])
    try:
        if kind in ("discrete", "discrete_step", "continuous"):
            el, r = _trafo_row(net, op["element"], op["row"])
            if r is None:
                return None
            # one tap controller per transformer: two controllers fighting over one tap changer is a
            # configuration error, not a property of the control loop
            taken = {int(x) for obj in net.controller.object.values
                     if getattr(obj, "element", None) == el and hasattr(obj, "tap_min")
                     for x in np.atleast_1d(obj.element_index)}
            if int(r) in taken:
                return None
            side = op["side"]
            if el == "trafo" and side == "mv":
                side = "lv"
            idx = int(r)
            if op.get("multi") and kind in ("discrete", "continuous"):
                # a second transformer of the same kind under the same controller object (vectorised form)
                others = [int(x) for x in net[el].index if int(x) != int(r) and int(x) not in taken
                          and not pd.isna(net[el].at[x, "tap_pos"])]
                if others:
                    idx = [int(r), others[op["row"] % len(others)]]
                    if op.get("index_form") == "array":
                        idx = np.array(idx)
                    elif op.get("index_form") == "pd_index":
                        idx = pd.Index(idx)
                    _PROBE[0] and _PROBE[0]("vectorised_tap_controller")
            if kind == "discrete":
                return Discrete(net, idx, op["vm_set"] - op["half"], op["vm_set"] + op["half"], side=side,
                                element=el, tol=op["tol"], hunting_limit=op["hunting"], **common)
            if kind == "discrete_step":
                return Discrete.from_tap_step_percent(net, int(r), op["vm_set"], side=side, element=el,
                                                      tol=op["tol"], hunting_limit=op["hunting"], **common)
            return Continuous(net, idx, op["vm_set"], tol=op["tol"], side=side, element=el,
                              check_tap_bounds=op["bounds"], **common)
        if kind == "characteristic":
            from pandapower.control import CharacteristicControl
            from pandapower.control.util.characteristic import Characteristic
            r = ops.pick_row(net, "sgen", op["row"])
            if r is None:
                return None
            for obj in net.controller.object.values:       # one Q(V) controller per sgen (see tap controllers)
                if getattr(obj, "output_element", None) == "sgen" and \
                        int(np.atleast_1d(obj.output_element_index)[0]) == int(r):
                    return None
            k = op["slope"]
            ch = Characteristic(net, x_values=[0.9, 1.0, 1.1], y_values=[0.1 * k, 0.0, -0.1 * k])
            return CharacteristicControl(net, "sgen", "q_mvar", int(r), "res_bus", "vm_pu",
                                         int(net.sgen.at[r, "bus"]), ch.index, tol=op["tol"], **common)
        if kind == "const":
            r = ops.pick_row(net, op["element"], op["row"])
            if r is None:
                return None
            return Const(net, op["element"], op["variable"], element_index=r, **common)
        tgt = ops.pick_row(net, "load", op["target"])
        return Probe(net, op["mode"], op["n"], tgt, **common)
    except Exception:
        return None


def _exec_run_control(net, op, i, ctx, created, call_no):
    import pandapower as pp
    from pandapower.control import run_control
    from pandapower.auxiliary import LoadflowNotConverged, OPFNotConverged, ControllerNotConverged, \
        NetCalculationNotConverged
    from pandapower.control.run_control import get_controller_order
    ctrls = [(c, o) for c, o in created if c.index in net.controller.index]
    if not ctrls:
        ctx.event("run_control", "no-controllers")
        return
    events = []            # (seq, kind, controller index, extra)
    fail_at = set(op["fail_at"])
    for _ in fail_at:
        ctx.fault_configured("callback-fail")
    state = {"runs": 0, "failed": []}
    levels_list = sorted({l for _, o in ctrls if o["in_service"]
                          for l in (o["level"] if isinstance(o["level"], list) else [o["level"]])})
    n_levels = max(1, len(levels_list))
    bound = 1 + n_levels * (op["max_iter"] + 1) * 2 + 2
    cap = 4 * bound

    def run_wrapper(net_, **kw):
        state["runs"] += 1
        events.append((ctx.next_seq(), "run", None, state["runs"]))
        if state["runs"] > cap:
            raise LivenessAbort()
        if state["runs"] in fail_at:
            ctx.fault_fired("callback-fail")
            state["failed"].append(state["runs"])
            net_["converged"] = False
            raise LoadflowNotConverged(f"ppsim: planned failure of evaluation #{state['runs']}")
        return pp.runpp(net_, **kw)
    run_wrapper.__name__ = "runpp"

    originals = []
    tap_violation = []
    for c, o in ctrls:
        for meth in ("initialize_control", "is_converged", "control_step", "repair_control", "finalize_control"):
            orig = getattr(c, meth)
            originals.append((c, meth, orig))

            def make(orig=orig, meth=meth, c=c, o=o):
                def wrapped(*a, **k):
                    events.append((ctx.next_seq(), meth, int(c.index), None))
                    tapctl = meth == "control_step" and o["kind"] in ("discrete", "discrete_step", "continuous") and \
                        (o["kind"] != "continuous" or o["bounds"])
                    before = {}
                    if tapctl:
                        for r in np.atleast_1d(c.element_index):
                            if int(r) in net[c.element].index:
                                before[int(r)] = float(net[c.element].at[int(r), "tap_pos"])
                    out = orig(*a, **k)
                    if meth == "is_converged":
                        events[-1] = events[-1][:3] + (bool(out),)
                    for r, b4 in before.items():
                        el = c.element
                        tp, lo, hi = float(net[el].at[r, "tap_pos"]), float(net[el].at[r, "tap_min"]), \
                            float(net[el].at[r, "tap_max"])
                        # only a move made by THIS step counts (another controller with check_tap_bounds=False may
                        # legitimately have left the tap outside before)
                        if tp != b4 and not (lo - 1e-9 <= tp <= hi + 1e-9) and (lo - 1e-9 <= b4 <= hi + 1e-9):
                            tap_violation.append((o["kind"], el, r, tp, lo, hi))
                    return out
                return wrapped
            setattr(c, meth, make())
    kw = dict(op["kw"])
    try:
        if op["via"] == "runpp":
            # runpp(run_control=True) -> run_control(**parameters): the run function cannot be replaced on this
            # path, so planned failures are not used here
            fail_at.clear()
            call = lambda: pp.runpp(net, run_control=True, max_iter=op["max_iter"], **kw)
        else:
            call = lambda: run_control(net, max_iter=op["max_iter"], run=run_wrapper,
                                       continue_on_divergence=op["continue_on_divergence"], **kw)
        _, exc = c08._plain_call(call)
    finally:
        for c, meth, orig in originals:
            try:
                delattr(c, meth)
            except AttributeError:
                setattr(c, meth, orig)
    ctx.sim["run_invocations"] += state["runs"]
    ctx.sim["controller_events"] += len(events)
    classes = sorted(o["kind"] for _, o in ctrls if o["in_service"])
    multi = len(levels_list) > 1
    if multi:
        ctx.probe("multi_level")
    lvl_tag = "multi-level" if multi else "single-level"
    sigs = []

    def bad(oracle, what, detail):
        sig = f"C13|oracle{oracle}|{what}|{lvl_tag}"
        if sig not in sigs:
            sigs.append(sig)
            ctx.violation(sig, f"op{i} (call {call_no}, via {op['via']}, max_iter={op['max_iter']}, controllers "
                               f"{classes}): {detail}", op=i)

    outcome = "ok" if exc is None else type(exc).__name__
    if state["failed"]:
        ctx.probe("run_invocation_failed")
    # 2. bounded termination
    if isinstance(exc, LivenessAbort) or state["runs"] > bound:
        bad(2, "run invocations exceed bound", f"{state['runs']} run invocations, bound 1 + levels*(max_iter+1) "
                                               f"(+retries) = {bound}")
    # 1. outcome
    allowed = (ControllerNotConverged, NetCalculationNotConverged, LoadflowNotConverged, OPFNotConverged)
    if exc is not None and not isinstance(exc, allowed) and not isinstance(exc, LivenessAbort):
        bad(1, f"raised {type(exc).__name__}", f"raised {type(exc).__name__}: {exc!s:.200}")
    if isinstance(exc, ControllerNotConverged):
        ctx.probe("control_loop_hit_max_iter")
    if any(o["kind"] == "probe" and o["mode"] == "never" and o["in_service"] for _, o in ctrls):
        ctx.probe("probe_controller_never_converges")
        if exc is None:
            bad(3, "returned with a controller that never converges", "run_control returned normally although an "
                                                                      "in-service controller never reports convergence")
    # 4. taps inside bounds after every control step
    if tap_violation:
        kind, el, r, tp, lo, hi = tap_violation[0]
        bad(4, f"{kind} moved tap outside bounds", f"{el} {r}: tap_pos {tp} outside [{lo}, {hi}] after a control_step")
    # 5. order: within one pass is_converged events of a level are in ascending order
    if op["via"] != "runpp":      # (on the runpp path the power flows between two passes are not visible)
        _check_order(events, ctrls, bad)
    if exc is None:
        ctx.probe("returned_normally")
        _check_return(net, ctrls, op, kw, bad, ctx, multi, events)
    ctx.conclusive += 1
    ctx.features.append(f"{classes}|{len(levels_list)}|{outcome}|{sorted(state['failed'])}|{call_no}|"
                        f"{op['max_iter'] if isinstance(exc, ControllerNotConverged) else '-'}")
    taps = [int(x) if float(x).is_integer() else oracles.sig_round(float(x), 7)
            for x in net.trafo.tap_pos.fillna(0).values[:3]]
    ctx.event("run_control", outcome, state["runs"], [(e[1][:4], e[2]) for e in events[:60]], taps, sigs)


def _check_order(events, ctrls, bad):
    """within a stretch of is_converged events that is not interrupted by a power flow, controllers that share a
    (scalar) level are asked in ascending `order`, and scalar levels never decrease"""
    info = {int(c.index): o for c, o in ctrls}
    seg = []

    def flush():
        cur = []
        for c in seg:
            if c in cur:          # the same controller again = next pass over the level
                cur = []
            if cur:
                a, b_ = info.get(cur[-1]), info.get(c)
                if a and b_ and not isinstance(a["level"], list) and not isinstance(b_["level"], list):
                    if a["level"] == b_["level"] and a["order"] > b_["order"]:
                        bad(5, "controllers not called in ascending order",
                            f"is_converged sequence (controller, level, order): "
                            f"{[(x, info[x]['level'], info[x]['order']) for x in cur + [c] if x in info]}")
                    if a["level"] > b_["level"]:
                        bad(5, "levels not entered in ascending order",
                            f"is_converged sequence (controller, level): "
                            f"{[(x, info[x]['level']) for x in cur + [c] if x in info]}")
            cur.append(c)

    for e in events:
        if e[1] == "is_converged":
            seg.append(e[2])
        elif e[1] in ("run", "initialize_control", "finalize_control", "repair_control"):
            flush()
            seg = []
    flush()


def _disturbed_by_higher_level(c, o, events, ctrls):
    """the controller reported convergence when its own level was left, and a controller of a higher level
    performed a control_step afterwards (pandapower does not revisit a lower level)"""
    info = {int(cc.index): oo for cc, oo in ctrls}
    my_levels = o["level"] if isinstance(o["level"], list) else [o["level"]]
    last_true = None
    for pos, e in enumerate(events):
        if e[1] == "is_converged" and e[2] == int(c.index) and e[3] is True:
            last_true = pos
    if last_true is None:
        return False
    for e in events[last_true + 1:]:
        if e[1] == "control_step" and e[2] in info and e[2] != int(c.index):
            lv = info[e[2]]["level"]
            lv = lv if isinstance(lv, list) else [lv]
            if max(lv) > min(my_levels):
                return True
    return False


def _check_return(net, ctrls, op, kw, bad, ctx, multi, events=()):
    import pandapower as pp
    # 3a. every in-service controller reports convergence on the returned state
    for c, o in ctrls:
        if not o["in_service"] or not bool(net.controller.at[c.index, "in_service"]):
            continue
        if o["kind"] == "probe":
            continue
        try:
            # evaluated on a copy: is_converged of some controllers (CharacteristicControl) writes to the net it is
            # given when it is not converged - the returned state itself must stay as run_control left it
            conv = bool(c.is_converged(copy.deepcopy(net)))
        except Exception as e:
            bad(3, f"is_converged raised on return:{o['kind']}", f"controller {c.index}: {type(e).__name__}: {e!s:.100}")
            continue
        disturbed = (not conv) and multi and _disturbed_by_higher_level(c, o, events, ctrls)
        if disturbed:
            ctx.probe("lower_level_disturbed_by_higher_level")
            bad(3, "lower-level controller disturbed by a higher level and not revisited",
                f"controller {c.index} ({o['kind']}, level {o['level']}) was converged when its level was left, a "
                f"higher-level controller acted afterwards, and run_control returned with it unconverged")
            continue
        if not conv:
            bad(3, f"unconverged on return:{o['kind']}", f"controller {c.index} ({o['kind']}, level {o['level']}, "
                                                         f"order {o['order']}) reports is_converged=False on the "
                                                         f"returned state")
        # 4b. band / setpoint or limit
        if o["kind"] in ("discrete", "discrete_step", "continuous") and not c.nothing_to_do(net):
            for tgt in _tap_targets(c, o):
                _band_oracle(net, c, o, tgt, kw, ctx, bad)
    # 3b. result tables equal a fresh power flow of the final element state
    ref = oracles.scrubbed_copy(net)
    _, e = c08._plain_call(lambda: pp.runpp(ref, **kw))
    if e is None:
        diffs = oracles.compare_results(net, ref, tables=["res_bus", "res_line", "res_trafo", "res_trafo3w",
                                                          "res_load", "res_ext_grid", "res_gen", "res_sgen"])
        if diffs:
            t, c_, what, d = diffs[0]
            bad(3, f"results differ from a fresh power flow:{t}", f"{t}.{c_}: {what} {d}")
    else:
        bad(3, "fresh power flow of the returned state fails", f"{type(e).__name__}: {e!s:.120}")


def _tap_targets(c, o):
    """(transformer index, controlled bus, band / setpoint) per transformer of a tap controller (the vectorised form
    holds arrays, the single-index form scalars)"""
    idx = np.atleast_1d(c.element_index)
    n = len(idx)
    col = lambda x: np.broadcast_to(np.atleast_1d(np.asarray(x, dtype=float)), (n,)) if x is not None else [None] * n
    buses = np.atleast_1d(c.trafobus)
    if o["kind"] == "continuous":
        vs = col(c.vm_set_pu)
        return [(int(idx[j]), int(buses[j]), float(vs[j]), None, None) for j in range(n)]
    lo, hi = col(c.vm_lower_pu), col(c.vm_upper_pu)
    return [(int(idx[j]), int(buses[j]), None, float(lo[j]), float(hi[j])) for j in range(n)]


def _band_oracle(net, c, o, tgt, kw, ctx, bad):
    import pandapower as pp
    r, bus, vm_set, vm_lo, vm_hi = tgt
    el = c.element
    vm = float(net.res_bus.vm_pu.at[bus]) if len(net.res_bus) else np.nan
    tp, lo, hi = float(net[el].at[r, "tap_pos"]), float(net[el].at[r, "tap_min"]), float(net[el].at[r, "tap_max"])
    at_limit = tp <= lo + 1e-9 or tp >= hi - 1e-9
    if at_limit:
        ctx.probe("tap_at_limit_on_return")
    if np.isnan(vm):
        return
    # "at the limit in the needed direction": if the voltage is outside the band with the tap at a
    # limit, one step back into the range must not bring the voltage closer to the band
    if o["kind"] == "continuous":
        lo_v, hi_v = vm_set * (1 - c.tol), vm_set * (1 + c.tol)
    else:
        lo_v, hi_v = vm_lo, vm_hi
    dist = max(lo_v - vm, vm - hi_v, 0.0)
    if at_limit and dist > 1e-9 and (o["kind"] != "continuous" or o["bounds"]):
        probe = oracles.scrubbed_copy(net)
        probe[el].at[r, "tap_pos"] = tp + 1 if tp <= lo + 1e-9 else tp - 1
        _, pe = c08._plain_call(lambda: pp.runpp(probe, **kw))
        if pe is None:
            vm2 = float(probe.res_bus.vm_pu.at[bus])
            dist2 = max(lo_v - vm2, vm2 - hi_v, 0.0)
            # (a real improvement: at least 1e-3 p.u. - a tap that hardly moves this bus cannot help)
            if dist2 < dist - 1e-3:
                bad(4, f"{o['kind'].split('_')[0]}: tap at the limit opposite to the needed direction",
                    f"{el} {r}: vm {vm:.5f} outside [{lo_v:.5f}, {hi_v:.5f}] with tap {tp} at a limit of "
                    f"[{lo}, {hi}], but one step back into the range gives vm {vm2:.5f} (closer to the band)")
    if o["kind"] == "continuous":
        ok = abs(1 - vm_set / vm) < c.tol + 1e-12 or (at_limit and o["bounds"])
        if not ok:
            bad(4, "continuous: neither at setpoint nor at limit on return",
                f"{el} {r}: vm {vm:.5f}, setpoint {vm_set}, tol {c.tol}, tap {tp} in [{lo}, {hi}]")
    else:
        ok = (vm_lo < vm < vm_hi) or at_limit
        if not ok:
            bad(4, "discrete: neither inside band nor at limit on return",
                f"{el} {r}: vm {vm:.5f}, band [{vm_lo:.5f}, {vm_hi:.5f}], tap {tp} in "
                f"[{lo}, {hi}]")
