"""C27 -- group operations behave as set operations on group membership.

Seeded histories of group operations interleaved with element drops and re-indexing against an
abstract set model (GroupModel).  No fault dimension; ops that raise are rolled back.
"""
import copy

import numpy as np
import pandas as pd

from .. import nets, ops, oracles
from . import c08

PROPERTY = "C27"
BUDGET = {"quick": 900, "thorough": 30000}
WALL_CAP = {"quick": 150, "thorough": 1500}
RULE = ("Episodes = small net with unique element names + 12-40 seeded ops: create_group / create_group_from_dict, "
        "attach_to_group(s) (index and reference-column forms, mismatching reference columns), detach_from_group(s), "
        "drop_group, drop_group_and_elements, set_group_reference_column, element drops via the toolbox, "
        "reindex_elements (elements and groups), set_group_in_service / out_of_service, set_value_to_group, "
        "group_res_p_mw/q_mvar after a power flow. After every op the members reported for every group and element "
        "type are compared with the set model. Non-trivial = an op returned and at least one group existed; "
        "distinct = distinct (operation family, number of groups, reference-column usage, member element types)."
        ' attach_to_groups, groups from shared argument lists, duplicate members, membership queries (isin_group, element_associated_groups, count_group_elements), overlapping reindex lookups, replace_* with membership transfer; a refused operation must leave the groups unchanged.')
COMPONENTS = {"real": ["pandapower.groups, create_group, toolbox drops / reindex_elements, runpp"],
              "stub": ["GroupModel (dict group -> element type -> set of element indices)"]}
ASSUMPTIONS = ["element names are unique (members given by reference column 'name' identify exactly one element)",
               "ops that raise are rejected edits: net and model are rolled back",
               "element drops remove the elements from every group (the model follows the element tables)"]
REACH_PROBES = ["group_with_reference_column", "attach_with_mismatching_reference_column", "group_emptied",
                "element_drop_with_members", "reindex_with_members", "res_sum_checked", "setter_checked",
                "groups_created_from_shared_argument_lists", "attach_to_several_groups",
                "membership_queries_checked", "reindex_with_overlapping_lookup", "replace_with_members"]

TEMPLATES = [("feeder", 4), ("case9", 3), ("feeder_t3w", 2), ("four_bus", 1)]
MEMBER_ET = ["load", "sgen", "line", "bus", "gen", "trafo", "switch"]
OPS_W = [("create_group", 4), ("attach", 6), ("attach_many", 2), ("detach", 5), ("detach_all", 2), ("drop_group", 1),
         ("drop_group_and_elements", 1), ("set_refcol", 3), ("drop_el", 4), ("reindex", 4), ("reindex_group", 1),
         ("in_service", 2), ("set_value", 2), ("res_sum", 2), ("create", 2), ("query", 4), ("replace", 3)]


def warm():
    import pandapower as pp
    nets.import_all_pandapower()
    nets.build_templates([t for t, _ in TEMPLATES])
    net = nets.get("feeder")
    pp.create_group(net, ["load"], [[0]], name="w")
    pp.runpp(net)


def generate(rng, idx, tier):
    cfg = {"template": c08._wchoice(rng, TEMPLATES)}
    ol = [{"op": "template", "name": cfg["template"]}, {"op": "create_switches", "n": rng.randint(0, 2)}]
    for _ in range(rng.randint(12, 40)):
        f = c08._wchoice(rng, OPS_W)
        op = {"op": f, "g": rng.randrange(100), "a": rng.randrange(1000), "b": rng.randrange(1000)}
        if f in ("create_group", "attach", "attach_many", "detach", "detach_all"):
            n_t = rng.randint(1, 3) if f in ("create_group", "attach", "attach_many") else 1
            op["types"] = rng.sample(MEMBER_ET, n_t)
            op["n"] = [rng.randint(1, 3) for _ in range(n_t)]
            op["refcol"] = rng.choice([None, None, "name"])
            op["from_dict"] = rng.random() < 0.3
            op["dup"] = rng.random() < 0.1            # a member listed twice in the argument
            if f == "create_group":
                op["twice"] = rng.random() < 0.2     # a second group from the very same argument lists
            if f == "attach_many":
                op["g2"] = rng.randrange(100)
        elif f == "replace":
            op["what"] = rng.choice(["load->sgen", "sgen->load", "gen->sgen", "sgen->gen"])
            op["n"] = rng.choice([1, 2])
            op["explicit"] = rng.random() < 0.4         # explicit, unordered new indices
        elif f == "query":
            op["et"] = rng.choice(MEMBER_ET)
            op["n"] = rng.choice([1, 1, 2, 3])
            op["single"] = rng.random() < 0.4          # one element index instead of a list
            op["narrow"] = rng.random() < 0.4          # isin_group restricted to some groups
        elif f == "set_refcol":
            op["refcol"] = rng.choice([None, "name", "name"])
            op["et"] = rng.choice([None, None] + MEMBER_ET[:3])
        elif f == "drop_el":
            op["et"] = rng.choice(["load", "sgen", "line", "gen", "bus", "switch", "trafo"])
        elif f == "reindex":
            op["et"] = rng.choice(MEMBER_ET)
            op["shift"] = rng.choice([1, 10])
            op["partial"] = rng.random() < 0.4
            op["mode"] = rng.choice(["above", "above", "shift_all", "swap", "rotate"])
        elif f == "in_service":
            op["to"] = rng.random() < 0.5
        elif f == "set_value":
            op["col"] = rng.choice(["in_service", "zone_tag", "scaling"])
            op["val"] = rng.choice([True, 0.5, "x"])
        elif f == "create":
            op = ops.gen_create(rng, ["load", "sgen", "line", "gen"])
        ol.append(op)
    return {"cfg": cfg, "ops": ol}


# ---------------------------------------------------------------------------------------------
class GroupModel:
    def __init__(self):
        self.g = {}          # group index -> {element type -> set(indices)}

    def members(self, gi, et):
        return self.g.get(gi, {}).get(et, set())

    def clean(self):
        for gi in list(self.g):
            for et in list(self.g[gi]):
                if not self.g[gi][et]:
                    del self.g[gi][et]
            if not self.g[gi]:
                del self.g[gi]


_NAME_COUNTER = [0]


def _names(net, reset=False):
    """unique names; existing names are never changed (members of reference-column groups are names)"""
    if reset:
        _NAME_COUNTER[0] = 0
    for et in MEMBER_ET + ["ext_grid", "storage", "trafo3w", "shunt"]:
        if et in net and len(net[et]):
            if reset or "name" not in net[et].columns:
                net[et]["name"] = None
                net[et]["name"] = net[et]["name"].astype(object)
            for i in net[et].index[net[et]["name"].isnull()]:
                _NAME_COUNTER[0] += 1
                net[et].at[i, "name"] = f"{et}_n{_NAME_COUNTER[0]}"


def _pick_members(net, et, a, n):
    idx = net[et].index.tolist() if et in net else []
    out = []
    for j in range(n):
        x = ops.pick(idx, a + 3 * j)
        if x is not None and x not in out:
            out.append(x)
    return out


def check_model(net, model):
    """-> list of (kind, (group, element type), detail)"""
    from pandapower.groups import group_element_index
    out = []
    real_groups = sorted(set(net.group.index.tolist())) if len(net.group) else []
    for gi in sorted(set(real_groups) | set(model.g)):
        real_types = net.group.element_type[net.group.index == gi].tolist() if gi in real_groups else []
        for et in sorted(set(model.g.get(gi, {})) | set(real_types)):
            want = model.members(gi, et)
            if et in real_types:
                try:
                    got = set(pd.Index(group_element_index(net, gi, et)).tolist())
                except Exception as e:
                    out.append(("member lookup raised", (gi, et),
                                f"group_element_index({gi}, {et}) raised {type(e).__name__}: {e!s:.80}"))
                    continue
                row_exists = True
            else:
                got, row_exists = set(), False
            if got != want:
                out.append(("member set differs", (gi, et), f"group {gi} {et}: reported "
                            f"{sorted(got, key=repr)[:8]}, model {sorted(want, key=repr)[:8]}"))
            elif row_exists and not want:
                out.append(("empty row kept", (gi, et), f"group {gi} has a row for {et} without members"))
    return out


def execute(ep, ctx):
    import pandapower as pp
    net = None
    model = GroupModel()
    for i, op in enumerate(ep["ops"]):
        k = op["op"]
        if k == "template":
            net = ops.apply_template(op)
            _names(net, reset=True)
            model = GroupModel()
            ctx.event("template", op["name"])
            continue
        if net is None:
            continue
        ctx.sim["ops"] += 1
        net_before, model_before = copy.deepcopy(net), copy.deepcopy(model)
        pre_viol = check_model(net, model)
        sigs = []
        fam_box = [k]

        def bad(kind, detail):
            sig = f"C27|{fam_box[0]}|{kind}"
            if sig not in sigs:
                sigs.append(sig)
                ctx.violation(sig, f"op{i} {fam_box[0]}: {detail}", op=i)

        try:
            status = apply_op(net, model, op, ctx, fam_box, bad)
        except Exception as e:
            # a refused operation must leave the groups as they were (no half-applied attach / reindex)
            pre_x = {(kind, key) for kind, key, _ in pre_viol}
            try:
                left = [(kind, key, d) for kind, key, d in check_model(net, model_before) if (kind, key) not in pre_x]
            except Exception:
                left = []
            for kind, key, d in left[:2]:
                fam_box[0] = f"{fam_box[0]} raised {type(e).__name__}"
                bad(f"{kind} after a refused operation", f"raised {type(e).__name__}: {e!s:.80}; left behind: {d}")
            net, model = net_before, model_before
            ctx.event(k, "rejected", type(e).__name__, sigs)
            continue
        if status == "noop":
            ctx.event(k, "noop")
            continue
        model.clean()
        pre = {(kind, key) for kind, key, _ in pre_viol}
        for kind, key, detail in check_model(net, model):
            if (kind, key) not in pre:          # (an op is only blamed for what is new after it)
                bad(kind, detail)
        if model.g or len(net.group):
            ctx.conclusive += 1
            refc = bool(len(net.group) and net.group.reference_column.notna().any())
            if refc:
                ctx.probe("group_with_reference_column")
            ets = sorted({et for g in model.g.values() for et in g})
            ctx.features.append(f"{fam_box[0]}|{len(model.g)}|{refc}|{ets}")
        ctx.event(k, fam_box[0], "ok", sorted(model.g), sigs)
        if sigs:
            # re-synchronise the model with what pandapower reports, so that later ops are judged on their own
            _resync(net, model)


def _resync(net, model):
    from pandapower.groups import group_element_index
    model.g = {}
    if not len(net.group):
        return
    for gi in sorted(set(net.group.index.tolist())):
        for et in net.group.element_type[net.group.index == gi].tolist():
            try:
                model.g.setdefault(gi, {})[et] = set(pd.Index(group_element_index(net, gi, et)).tolist())
            except Exception:
                pass
    model.clean()


def _members_arg(net, et, idx, refcol, dup=False):
    out = list(idx) if refcol is None else [net[et].at[x, refcol] for x in idx]
    if dup and out:
        out = out + out[:1]
    return out


def apply_op(net, model, op, ctx, fam, bad):
    import pandapower as pp
    import pandapower.toolbox as tb
    from pandapower import groups as G
    k = op["op"]
    existing = sorted(model.g)
    gi = ops.pick(existing, op.get("g", 0)) if existing else None
    if k == "create_switches":
        for j in range(op["n"]):
            l = ops.pick(net.line.index.tolist(), 3 * j + 1)
            if l is not None:
                pp.create_switch(net, int(net.line.at[l, "from_bus"]), l, "l", closed=True, name=f"switch_x{j}")
        _names(net)
        return "ok"
    if k == "create":
        st, info = ops.apply_basic(net, op)
        _names(net)
        return "ok" if st == "ok" else "noop"
    if k == "create_group":
        types, idxs = [], []
        for et, n in zip(op["types"], op["n"]):
            m = _pick_members(net, et, op["a"], n)
            if m:
                types.append(et)
                idxs.append(m)
        if not types:
            return "noop"
        rc = op["refcol"]
        args = [_members_arg(net, et, m, rc, op.get("dup")) for et, m in zip(types, idxs)]
        if op["from_dict"]:
            new = pp.create_group_from_dict(net, dict(zip(types, args)), name=f"g{op['a']}", reference_column=rc)
        else:
            new = pp.create_group(net, types, args, name=f"g{op['a']}", reference_columns=rc)
        fam[0] = "create_group" + (":refcol" if rc else "")
        model.g[new] = {et: set(m) for et, m in zip(types, idxs)}
        if op.get("twice"):
            # the caller reuses its lists for a second group: the groups must stay independent of each other
            if op["from_dict"]:
                new2 = pp.create_group_from_dict(net, dict(zip(types, args)), name=f"g{op['a']}b", reference_column=rc)
            else:
                new2 = pp.create_group(net, types, args, name=f"g{op['a']}b", reference_columns=rc)
            model.g[new2] = {et: set(m) for et, m in zip(types, idxs)}
            ctx.probe("groups_created_from_shared_argument_lists")
        return "ok"
    if k == "attach_many":
        if len(existing) < 2:
            return "noop"
        gis = sorted({gi, ops.pick(existing, op.get("g2", 0))})
        if len(gis) < 2:
            gis = existing[:2]
        types, idxs = [], []
        for et, n in zip(op["types"], op["n"]):
            m = _pick_members(net, et, op["a"], n)
            if m:
                types.append(et)
                idxs.append(m)
        if not types:
            return "noop"
        rc = op["refcol"]
        args = [_members_arg(net, et, m, rc) for et, m in zip(types, idxs)]
        G.attach_to_groups(net, gis, types, args, reference_columns=rc)
        fam[0] = "attach_to_groups" + (":refcol" if rc else "")
        for g in gis:
            for et, m in zip(types, idxs):
                model.g[g].setdefault(et, set()).update(m)
        ctx.probe("attach_to_several_groups")
        return "ok"
    if k == "attach":
        if gi is None:
            return "noop"
        types, idxs = [], []
        for et, n in zip(op["types"], op["n"]):
            m = _pick_members(net, et, op["a"], n)
            if m:
                types.append(et)
                idxs.append(m)
        if not types:
            return "noop"
        rc = op["refcol"]
        # does the reference column differ from what the group already uses for this type?
        for et in types:
            rows = net.group[(net.group.index == gi) & (net.group.element_type == et)]
            if len(rows):
                ex = rows.reference_column.iloc[0]
                ex = None if pd.isnull(ex) else ex
                if ex != rc:
                    ctx.probe("attach_with_mismatching_reference_column")
        args = [_members_arg(net, et, m, rc, op.get("dup")) for et, m in zip(types, idxs)]
        G.attach_to_group(net, gi, types, args, reference_columns=rc)
        fam[0] = "attach_to_group" + (":refcol" if rc else "")
        for et, m in zip(types, idxs):
            model.g[gi].setdefault(et, set()).update(m)
        return "ok"
    if k == "detach":
        if gi is None:
            return "noop"
        cand = sorted(model.g[gi])
        et = ops.pick(cand, op["a"])
        mem = sorted(model.g[gi][et], key=repr)
        sel = [ops.pick(mem, op["b"] + j) for j in range(op["n"][0])]
        sel = list(dict.fromkeys(sel))
        G.detach_from_group(net, gi, et, sel)
        fam[0] = "detach_from_group"
        model.g[gi][et] -= set(sel)
        if not model.g[gi][et]:
            ctx.probe("group_emptied")
        return "ok"
    if k == "detach_all":
        et = op["types"][0]
        sel = _pick_members(net, et, op["a"], op["n"][0])
        if not sel or not model.g:
            return "noop"
        G.detach_from_groups(net, et, sel)
        fam[0] = "detach_from_groups"
        for g in model.g.values():
            if et in g:
                g[et] -= set(sel)
        return "ok"
    if k == "drop_group":
        if gi is None:
            return "noop"
        G.drop_group(net, gi)
        del model.g[gi]
        return "ok"
    if k == "drop_group_and_elements":
        if gi is None or "bus" in model.g[gi]:
            return "noop"       # (dropping buses takes connected elements with it: covered by drop_el)
        members = copy.deepcopy(model.g[gi])
        G.drop_group_and_elements(net, gi)
        del model.g[gi]
        _follow_tables(net, model)
        return "ok"
    if k == "set_refcol":
        if gi is None:
            return "noop"
        et = op["et"] if op["et"] in model.g[gi] else None
        G.set_group_reference_column(net, gi, op["refcol"], element_type=et)
        fam[0] = f"set_group_reference_column:{op['refcol']}"
        return "ok"
    if k == "drop_el":
        et = op["et"]
        sel = _pick_members(net, et, op["a"], 1)
        if not sel or (et == "bus" and (sel[0] in set(net.ext_grid.bus) or len(net.bus) < 4)):
            return "noop"
        if any(sel[0] in g.get(et, set()) for g in model.g.values()):
            ctx.probe("element_drop_with_members")
        tb.drop_elements(net, et, sel)
        fam[0] = f"drop_elements:{et}"
        _follow_tables(net, model)
        return "ok"
    if k == "reindex":
        et = op["et"]
        if et not in net or not len(net[et]):
            return "noop"
        idx = net[et].index.tolist()
        sel = idx[::2] if op["partial"] else idx
        top = max(idx) + op["shift"]
        lookup = {old: top + j + 1 for j, old in enumerate(sel)}
        mode = op.get("mode", "above")
        lookup = ops.overlapping_lookup(idx, mode, op["a"], op["b"]) or lookup
        if mode != "above":
            ctx.probe("reindex_with_overlapping_lookup")
        if any(g.get(et) for g in model.g.values()):
            ctx.probe("reindex_with_members")
        tb.reindex_elements(net, et, lookup=lookup)
        fam[0] = f"reindex_elements:{et}"
        for g in model.g.values():
            if et in g:
                g[et] = {lookup.get(x, x) for x in g[et]}
        if et == "bus":
            pass
        return "ok"
    if k == "reindex_group":
        if not model.g:
            return "noop"
        lookup = {g: g + 10 + j for j, g in enumerate(sorted(model.g))}
        tb.reindex_elements(net, "group", lookup=lookup)
        fam[0] = "reindex_elements:group"
        model.g = {lookup[g]: v for g, v in model.g.items()}
        return "ok"
    if k == "in_service":
        if gi is None:
            return "noop"
        snap = {et: net[et].copy() for et in MEMBER_ET + ["ext_grid", "trafo3w"] if et in net}
        (G.set_group_in_service if op["to"] else G.set_group_out_of_service)(net, gi)
        fam[0] = "set_group_in_service" if op["to"] else "set_group_out_of_service"
        _check_setter(net, snap, model.g[gi], "in_service", op["to"], bad)
        ctx.probe("setter_checked")
        return "ok"
    if k == "set_value":
        if gi is None:
            return "noop"
        col, val = op["col"], op["val"]
        if col == "in_service":
            val = bool(val)
        if col == "scaling":
            val = 0.5
        snap = {et: net[et].copy() for et in MEMBER_ET + ["ext_grid", "trafo3w"] if et in net}
        G.set_value_to_group(net, gi, val, col)
        fam[0] = f"set_value_to_group:{col}"
        _check_setter(net, snap, model.g[gi], col, val, bad, only_if_col=True)
        ctx.probe("setter_checked")
        return "ok"
    if k == "replace":
        old_t, new_t = op["what"].split("->")
        if old_t not in net or not len(net[old_t]):
            return "noop"
        sel = _pick_members(net, old_t, op["a"], op["n"])
        if not sel:
            return "noop"
        if old_t == "gen" and "slack" in net.gen.columns and net.gen.loc[sel, "slack"].any():
            return "noop"
        new_idx = None
        if op["explicit"]:
            top = (max(net[new_t].index) if len(net[new_t]) else 0) + 5
            new_idx = [top + 2 * (len(sel) - j) for j in range(len(sel))]      # descending
        if any(x in g.get(old_t, set()) for g in model.g.values() for x in sel):
            ctx.probe("replace_with_members")
        if op["what"] in ("load->sgen", "sgen->load"):
            got = tb.replace_pq_elmtype(net, old_t, new_t, old_indices=sel, new_indices=new_idx)
        elif op["what"] == "gen->sgen":
            got = tb.replace_gen_by_sgen(net, gens=sel, sgen_indices=new_idx)
        else:
            got = tb.replace_sgen_by_gen(net, sgens=sel, gen_indices=new_idx)
        got = [int(x) for x in list(got)]
        fam[0] = f"replace:{op['what']}"
        _names(net)
        if len(got) != len(sel):
            bad("replace returned other number of elements", f"{len(got)} new for {len(sel)} old elements")
            return "ok"
        mapping = dict(zip(sel, got))
        for g in model.g.values():
            moved = {x for x in g.get(old_t, set()) if x in mapping}
            if moved:
                g[old_t] -= moved
                g.setdefault(new_t, set()).update(mapping[x] for x in moved)
        return "ok"
    if k == "query":
        # the membership reporting functions other than group_element_index
        et = op["et"]
        sel = _pick_members(net, et, op["a"], op["n"])
        if not sel or not model.g:
            return "noop"
        fam[0] = "membership queries"
        single = op["single"]
        arg = sel[0] if single else sel
        if single:
            sel = sel[:1]
        groups = sorted(model.g)
        narrow = None
        if op["narrow"]:
            narrow = sorted({ops.pick(groups, op["b"]), ops.pick(groups, op["b"] + 1)})
        # isin_group
        try:
            got = G.isin_group(net, et, arg, index=narrow)
            want = [any(x in model.members(g, et) for g in (narrow or groups)) for x in sel]
            got_l = [bool(got)] if single else [bool(v) for v in got]
            if got_l != want:
                bad("isin_group differs", f"isin_group({et}, {arg}, index={narrow}) = {got_l}, model {want}")
        except Exception as e:
            bad("isin_group raised", f"isin_group({et}, {arg}, index={narrow}) raised {type(e).__name__}: {e!s:.80}")
        # element_associated_groups
        try:
            got = G.element_associated_groups(net, et, arg)
            want = {x: sorted(g for g in groups if x in model.members(g, et)) for x in sel}
            if single:
                if sorted(got) != want[sel[0]]:
                    bad("element_associated_groups differs",
                        f"element_associated_groups({et}, {arg}) = {got}, model {want[sel[0]]}")
            else:
                got_d = {kk: sorted(v) for kk, v in dict(got).items()}
                if got_d != want:
                    bad("element_associated_groups differs",
                        f"element_associated_groups({et}, {arg}) = {got_d}, model {want}")
        except Exception as e:
            bad("element_associated_groups raised",
                f"element_associated_groups({et}, {arg}) raised {type(e).__name__}: {e!s:.80}")
        # count_group_elements
        g0 = ops.pick(groups, op["g"])
        try:
            got = G.count_group_elements(net, g0).to_dict()
            want = {t: len(m) for t, m in model.g[g0].items() if m}
            if {t: int(v) for t, v in got.items()} != want:
                bad("count_group_elements differs", f"count_group_elements({g0}) = {got}, model {want}")
        except Exception as e:
            bad("count_group_elements raised", f"count_group_elements({g0}) raised {type(e).__name__}: {e!s:.80}")
        ctx.probe("membership_queries_checked")
        return "ok"
    if k == "res_sum":
        if gi is None:
            return "noop"
        try:
            pp.runpp(net)
        except Exception:
            return "noop"
        fam[0] = "group_res_p_mw"
        for fn, col, coll in ((G.group_res_p_mw, "p_mw", "pl_mw"), (G.group_res_q_mvar, "q_mvar", "ql_mvar")):
            got = fn(net, gi)
            want = 0.0
            for et, mem in model.g[gi].items():
                if et in ("switch", "measurement", "bus"):
                    continue
                res = net.get("res_" + et)
                if res is None:
                    continue
                sign = -1 if et in ("ext_grid", "gen", "sgen") else 1
                c = col if col in res.columns else coll if coll in res.columns else None
                if c is None:
                    continue
                want += sign * float(res[c].loc[res.index.intersection(sorted(mem))].sum())
            if not (abs(got - want) <= 1e-9 + 1e-9 * abs(want)) and not (np.isnan(got) and np.isnan(want)):
                bad("result sum differs", f"{fn.__name__}({gi}) = {got}, signed sum over the model's members = {want}")
        ctx.probe("res_sum_checked")
        return "ok"
    return "noop"


def _follow_tables(net, model):
    for g in model.g.values():
        for et in list(g):
            if et in net:
                g[et] = {x for x in g[et] if x in net[et].index}


def _check_setter(net, snap, members, col, val, bad, only_if_col=False):
    for et, old in snap.items():
        new = net[et]
        mem = members.get(et, set())
        if len(old) != len(new):
            bad("setter changed rows", f"{et}: {len(old)} -> {len(new)} rows")
            continue
        if col in new.columns:
            for ix in new.index:
                if ix in mem:
                    if not oracles.cell_equal(new.at[ix, col], val):
                        bad("setter missed member", f"{et} {ix}.{col} = {new.at[ix, col]!r}, expected {val!r}")
                        break
                elif col in old.columns:
                    if not oracles.cell_equal(new.at[ix, col], old.at[ix, col]):
                        bad("setter touched non-member", f"{et} {ix}.{col}: {old.at[ix, col]!r} -> {new.at[ix, col]!r}")
                        break
                elif not pd.isnull(new.at[ix, col]):
                    bad("setter touched non-member", f"{et} {ix}.{col} newly set to {new.at[ix, col]!r}")
                    break
        for c in old.columns:
            if c != col and c in new.columns:
                try:
                    diff = oracles._col_equal(old[c].values, new[c].values)
                except Exception:
                    continue
                if diff.any():
                    bad("setter changed other column", f"{et}.{c} changed")
                    break
