"""C12 -- time-series results equal a fresh power flow at every time step.

Logical time = position in time_steps.  Seams: DataSource (SimData / DFData), the `run` callback
(recording wrapper that keeps __name__ == 'runpp' so the recycle logic engages, can fail at planned
invocations), the OutputWriter's wall clock (perf_counter replaced by SimClock, advanced from the
progress_function callback).  Oracle: TimeseriesModel -- a replica without OutputWriter, recycling
or batch reading, on which every step is a fresh power flow.
"""
import copy
import os
import shutil

import numpy as np
import pandas as pd

from .. import nets, ops, oracles
from . import c08

PROPERTY = "C12"
BUDGET = {"quick": 600, "thorough": 20000}
WALL_CAP = {"quick": 150, "thorough": 1500}
RULE = ("Episodes = small net + 1-4 ConstControls over seeded element.variable pairs (single and multi index, "
        "DFData and SimData sources, scale factors) + an OutputWriter with a seeded selection of log variables "
        "(batch-readable and not, index subsets, eval functions), output path/file type, write_time with a simulated "
        "clock, time_steps as range/tuple/shuffled/sparse list, recycle auto/False, runpp/rundcpp, failing steps "
        "(natural divergence and callback-fail) with continue_on_divergence, optionally a second run on the same "
        "net. Every recorded value is compared with a fresh power flow of a replica at that step. Non-trivial = at "
        "least one step of one logged variable was compared; distinct = distinct (controlled element.variable set, "
        "logged table.variable set, recycle mode chosen, batch-read on/off, dump pattern, failure pattern)."
        ' Controller targets cover storage/gen scaling, trafo3w taps, transformer and line parameters, in_service profiles and shunts; dcline templates; element tables reindexed (non-contiguous, rotated, reversed rows); log requests in user order, as scalar / array / Index, default eval names, removed and re-requested, for element types without elements; power flow options (trafo_loading, pi model, q limits, ...); time steps as list / array / None; second runs re-using the OutputWriter; controllers out of service.')
COMPONENTS = {"real": ["run_timeseries, run_control, OutputWriter incl. batch reading, ConstControl, DFData, recycled "
                       "power flow"], "stub": ["SimData data source", "SimClock (perf_counter of the OutputWriter)",
                                               "recording/failing run wrapper", "TimeseriesModel replica"]}
ASSUMPTIONS = ["the replica applies each controller's documented per-step update (time_step) and runs a fresh runpp / "
               "rundcpp on scrubbed state", "a failed step is not value-compared; every later step is",
               "values: |a-b| <= 5e-5 + 5e-5|b| (two solver runs from different start points, each stopped at 1e-8 MVA)"]
REACH_PROBES = ["recycled_power_flow_executed", "batch_read_path_taken", "only_v_results", "intermediate_dump",
                "step_failed_then_next_step_checked", "second_run_on_same_net", "line_parameter_controlled",
                "multi_index_controller", "tap_controller_in_loop", "subset_logged_in_non_table_order",
                "dc_recycled_power_flow_executed", "variable_removed_and_requested_again",
                "non_contiguous_or_unsorted_element_index", "variable_of_empty_element_table_requested",
                "second_run_with_the_same_output_writer", "controller_out_of_service",
                "time_steps_from_data_source"]

CTRL_TARGETS = [("load", "p_mw"), ("load", "q_mvar"), ("load", "scaling"), ("sgen", "p_mw"), ("sgen", "q_mvar"),
                ("sgen", "scaling"), ("storage", "p_mw"), ("gen", "p_mw"), ("gen", "vm_pu"), ("ext_grid", "vm_pu"),
                ("ext_grid", "va_degree"), ("trafo", "tap_pos"), ("line", "length_km"), ("line", "r_ohm_per_km"),
                ("line", "x_ohm_per_km"), ("line", "max_i_ka"), ("load", "p_mw"), ("sgen", "p_mw"),
                ("storage", "q_mvar"), ("storage", "scaling"), ("gen", "scaling"), ("trafo3w", "tap_pos"),
                ("line", "c_nf_per_km"), ("trafo", "vk_percent"), ("trafo", "in_service"), ("line", "in_service"),
                ("load", "in_service"), ("sgen", "in_service"), ("shunt", "q_mvar"), ("trafo", "max_loading_percent")]
LOG_VARS = [("res_bus", "vm_pu"), ("res_bus", "va_degree"), ("res_bus", "p_mw"), ("res_line", "loading_percent"),
            ("res_line", "i_ka"), ("res_line", "p_from_mw"), ("res_line", "i_from_ka"), ("res_line", "pl_mw"),
            ("res_trafo", "loading_percent"), ("res_trafo", "i_hv_ka"), ("res_trafo", "p_hv_mw"),
            ("res_trafo3w", "loading_percent"), ("res_load", "p_mw"), ("res_sgen", "p_mw"),
            ("res_ext_grid", "p_mw"), ("res_ext_grid", "q_mvar"), ("res_gen", "q_mvar"), ("res_bus", "vm_pu"),
            ("res_line", "loading_percent")]
BATCH_VARS = [("res_bus", "vm_pu"), ("res_bus", "va_degree"), ("res_line", "loading_percent"), ("res_line", "i_ka"),
              ("res_line", "i_from_ka"), ("res_line", "i_to_ka"), ("res_trafo", "loading_percent"),
              ("res_trafo", "i_hv_ka"), ("res_trafo", "i_lv_ka"), ("res_trafo3w", "loading_percent"),
              ("res_trafo3w", "i_hv_ka"), ("res_trafo3w", "i_mv_ka")]
TEMPLATES = [("feeder", 4), ("case9", 3), ("four_bus", 2), ("cigre_mv", 2), ("feeder_t3w", 2), ("feeder_taptable", 1),
             ("feeder_dcline", 2), ("case9_dcline", 1), ("feeder_all", 1)]


def warm():
    import pandapower as pp
    from pandapower.timeseries import run_timeseries, OutputWriter, DFData
    from pandapower.control import ConstControl
    nets.import_all_pandapower()
    nets.build_templates([t for t, _ in TEMPLATES])
    for name in ("feeder", "case9"):
        net = nets.get(name)
        df = pd.DataFrame({"a": [1.0, 1.1, 0.9]})
        ConstControl(net, "load", "p_mw", element_index=net.load.index[0], profile_name="a", data_source=DFData(df))
        ow = OutputWriter(net, output_path=None)
        ow.log_variable("res_bus", "vm_pu")
        ow.log_variable("res_line", "loading_percent")
        try:
            run_timeseries(net, time_steps=range(3), verbose=False)
        except Exception:
            pass
        try:
            pp.rundcpp(net)
        except Exception:
            pass


def generate(rng, idx, tier):
    n_steps = rng.randint(3, 10)
    form = rng.choice(["range", "list", "shuffled", "sparse", "range", "array", "none"])
    cfg = {"template": c08._wchoice(rng, TEMPLATES), "n_steps": n_steps, "form": form}
    ol = [{"op": "template", "name": cfg["template"]}]
    if rng.random() < 0.3:
        ol.append(ops.gen_create(rng, ["storage", "load", "sgen", "gen"]))
    for _ in range(rng.choice([0, 0, 1, 2])):
        # element tables with non-contiguous / unsorted indices (recorded columns are element indices)
        ol.append({"op": "reindex", "table": rng.choice(["line", "bus", "trafo", "load", "line", "bus"]),
                   "mode": rng.choice(["spread", "rotate", "reverse_rows"])})
    n_ctrl = rng.randint(1, 4)
    # a quarter of the episodes is shaped so that the batch-read / only_v_results shortcut engages:
    # only bus-pq / gen class controllers with recycle on, plain constructor log variables
    batchy = rng.random() < 0.25
    cfg["batchy"] = batchy
    for c in range(n_ctrl):
        el, var = rng.choice(CTRL_TARGETS[:11] if batchy else CTRL_TARGETS)
        multi = rng.random() < 0.3
        ol.append({"op": "const_control", "element": el, "variable": var,
                   "rows": [rng.randrange(1000) for _ in range(rng.randint(2, 3) if multi else 1)],
                   "source": rng.choice(["df", "df", "sim"]) if not multi else "df",
                   "scale": rng.choice([1.0, 1.0, 0.5, 2.0]),
                   "factors": [round(rng.uniform(0.5, 1.5), 3) for _ in range(12)],
                   "ints": [rng.randint(-2, 2) for _ in range(12)],
                   "recycle": True if batchy else rng.choice([True, True, True, False]),
                   "diverge_at": rng.choice([None, None, None, rng.randrange(12)]),
                   "ctrl_in_service": rng.random() >= 0.08})
    if not batchy and rng.random() < 0.3:
        ol.append({"op": "tap_control", "kind": rng.choice(["discrete", "continuous"]), "row": rng.randrange(100),
                   "vm_set": round(rng.uniform(0.98, 1.03), 3), "half": rng.choice([0.02, 0.015])})
    logs = []
    for _ in range(rng.randint(1, 5)):
        t, v = rng.choice(LOG_VARS)
        logs.append({"table": t, "variable": v, "subset": rng.choice([None, None, [rng.randrange(100), rng.randrange(100)],
                                                                   [rng.randrange(100) for _ in range(3)]]),
                     "eval": rng.choice([None, None, None, "max", "sum"]),
                     "index_form": rng.choice(["list", "list", "array", "pd_index", "scalar"]),
                     "eval_named": rng.random() < 0.7})
    ol.append({"op": "output_writer", "logs": logs, "path": rng.choice([None, "dir", "dir"]),
               "ftype": rng.choice([".p", ".json", ".csv"]),
               "write_time_min": rng.choice([None, None, 0.02]),
               "log_defaults": rng.random() < 0.3, "relog": rng.random() < 0.15,
               # plain (table, variable) tuples passed to the constructor: the form the batch-read /
               # only_v_results shortcut of run_timeseries accepts
               "ctor_logs": True if batchy else rng.random() < 0.3})
    if batchy:
        for lg in logs:
            lg["table"], lg["variable"] = rng.choice(BATCH_VARS + LOG_VARS[:9])
    run = {"op": "run_timeseries", "form": form, "n_steps": n_steps, "perm_seed": rng.randrange(1 << 30),
           "recycle": "auto" if batchy else rng.choice(["auto", "auto", "auto", False]),
           "run": "runpp" if batchy else rng.choice(["runpp", "runpp", "runpp", "rundcpp"]),
           "continue_on_divergence": rng.random() < 0.6,
           "fail_at": sorted(rng.sample(range(1, 14), rng.choice([0, 0, 0, 1, 2]))),
           "dt": [rng.choice([0.1, 0.1, 0.1, 5.0]) for _ in range(12)], "kw": rng.choice([{}, {}, {}, {"numba": False}, {"trafo_loading": "power"}, {"trafo_loading": "power"},
                             {"trafo_model": "pi"}, {"calculate_voltage_angles": False},
                             {"enforce_q_lims": True}, {"voltage_depend_loads": False}])}
    ol.append(run)
    if rng.random() < 0.3:
        ol.append(ops.gen_toggle(rng, [("switch", "closed"), ("line", "in_service"), ("load", "in_service")]))
        run2 = copy.deepcopy(run)
        run2["perm_seed"] = rng.randrange(1 << 30)
        run2["fail_at"] = []
        run2["reuse_ow"] = rng.random() < 0.5       # the user calls run_timeseries again with the same OutputWriter
        ol.append(run2)
    return {"cfg": cfg, "ops": ol}


def simplify_op(op):
    out = []
    if op.get("op") == "output_writer":
        if len(op["logs"]) > 1:
            for j in range(len(op["logs"])):
                o = copy.deepcopy(op); del o["logs"][j]; out.append(o)
        for j, lg in enumerate(op["logs"]):
            for k in ("subset", "eval"):
                if lg.get(k):
                    o = copy.deepcopy(op); o["logs"][j][k] = None; out.append(o)
        for k, v in (("path", None), ("write_time_min", None), ("log_defaults", False), ("ctor_logs", False)):
            if op.get(k):
                o = copy.deepcopy(op); o[k] = v; out.append(o)
    if op.get("op") == "run_timeseries":
        for k, v in (("fail_at", []), ("kw", {}), ("form", "range"), ("run", "runpp")):
            if op.get(k) != v:
                o = copy.deepcopy(op); o[k] = v; out.append(o)
        if op["n_steps"] > 2:
            o = copy.deepcopy(op); o["n_steps"] = op["n_steps"] - 1; out.append(o)
            o = copy.deepcopy(op); o["n_steps"] = 2; out.append(o)
    if op.get("op") == "const_control":
        for k, v in (("diverge_at", None), ("scale", 1.0), ("source", "df")):
            if op.get(k) != v:
                o = copy.deepcopy(op); o[k] = v; out.append(o)
        if len(op["rows"]) > 1:
            o = copy.deepcopy(op); o["rows"] = op["rows"][:1]; out.append(o)
    return out


# ---------------------------------------------------------------------------------------------
class SimClock:
    def __init__(self):
        self.t = 1000.0

    def now(self):
        return self.t

    def advance(self, dt):
        self.t += dt


def make_simdata_class():
    from pandapower.timeseries.data_source import DataSource

    class SimData(DataSource):
        """seeded profile values, records every read (time_step, profile)"""

        def __init__(self, table):
            super().__init__()
            self.table = table            # profile -> list of values by time step
            self.reads = []

        def get_time_step_value(self, time_step, profile_name, scale_factor=1.0):
            self.reads.append((int(time_step), profile_name))
            if isinstance(profile_name, (list, tuple, np.ndarray, pd.Index)):
                return np.array([self.table[p][int(time_step)] for p in profile_name]) * scale_factor
            return self.table[profile_name][int(time_step)] * scale_factor

        def get_time_steps_len(self):
            return len(next(iter(self.table.values())))

    return SimData


N_PROFILE = 14


def _profile_values(net, op, row, T=N_PROFILE):
    el, var = op["element"], op["variable"]
    base = net[el].at[row, var]
    vals = []
    for t in range(T):
        f = op["factors"][t % len(op["factors"])]
        if var == "tap_pos":
            lo, hi = net[el].at[row, "tap_min"], net[el].at[row, "tap_max"]
            v = op["ints"][t % len(op["ints"])]
            if not (pd.isna(lo) or pd.isna(hi)):
                v = int(min(max(v, lo), hi))
            vals.append(float(v))
        elif var == "in_service":
            vals.append(bool(op["ints"][t % len(op["ints"])] > -2))      # mostly in service, sometimes out
        elif var == "vm_pu":
            vals.append(round(1.0 + (f - 1.0) * 0.06, 4))
        elif var == "va_degree":
            vals.append(round((f - 1.0) * 10, 3))
        elif var == "scaling":
            vals.append(f)
        else:
            b = float(base) if not pd.isna(base) else 0.1
            vals.append(round(b * f, 6))
    if op.get("diverge_at") is not None and el in ("load", "sgen", "storage") and var in ("p_mw", "scaling"):
        vals[op["diverge_at"] % T] = (vals[op["diverge_at"] % T] or 1.0) * 400.0
    return vals


def build_time_steps(op):
    import random
    n = op["n_steps"]
    form = op["form"]
    if form == "range":
        return range(n), list(range(n))
    if form in ("tuple", "list"):
        # (a (start, stop) tuple is documented but taken as the two steps [start, stop] by
        # init_time_steps; which steps are run is outside C12, so the workload passes a list)
        return list(range(1, n + 1)), list(range(1, n + 1))
    if form == "sparse":
        ts = list(range(0, N_PROFILE, 2))[:max(2, n // 2 + 1)]
        return ts, ts
    if form == "array":
        return np.arange(1, n + 1), list(range(1, n + 1))
    if form == "none":
        # all time steps of the first controller's data source (every profile has N_PROFILE steps)
        return None, list(range(N_PROFILE))
    rr = random.Random(op["perm_seed"])
    ts = list(range(n))
    rr.shuffle(ts)
    return ts, ts


class RunWrapper:
    """recording wrapper around the real runpp / rundcpp (keeps __name__)"""

    def __init__(self, name, ctx, fail_at):
        import pandapower as pp
        import pandapower.powerflow as pf
        self.fn = pp.runpp if name == "runpp" else pp.rundcpp
        self.__name__ = name
        self.ctx = ctx
        self.fail_at = set(fail_at)
        self.n = 0
        self.recycled = 0
        self.only_v = 0
        self.dc_recycled = 0
        self.raised = []

    def __call__(self, net, **kw):
        from pandapower.auxiliary import LoadflowNotConverged
        self.n += 1
        self.ctx.next_seq()
        if self.n in self.fail_at:
            self.ctx.fault_fired("callback-fail")
            self.raised.append(self.n)
            net["converged"] = False
            raise LoadflowNotConverged(f"ppsim: planned failure of evaluation #{self.n}")
        if isinstance(kw.get("recycle"), dict) and net.get("_ppc") is not None and \
                isinstance(net["_ppc"], dict) and net["_ppc"].get("internal", {}).get("Ybus") is not None \
                and getattr(net["_ppc"]["internal"].get("Ybus"), "size", 0):
            self.recycled += 1
            if kw.get("only_v_results"):
                self.only_v += 1
        elif self.__name__ == "rundcpp" and isinstance(kw.get("recycle"), dict) and isinstance(net.get("_ppc"), dict) \
                and net["_ppc"].get("internal", {}).get("Bbus") is not None:
            self.recycled += 1
            self.dc_recycled += 1
        try:
            return self.fn(net, **kw)
        except Exception:
            self.raised.append(self.n)
            raise


def execute(ep, ctx):
    import pandapower as pp
    from pandapower.control import ConstControl
    from pandapower.timeseries import OutputWriter, DFData
    import pandapower.timeseries.output_writer as owm
    SimData = make_simdata_class()
    _LAST_OW.clear()
    net = None
    ow_op = None
    ctrl_desc = []
    tmpdir = None
    n_runs = 0
    try:
        for i, op in enumerate(ep["ops"]):
            k = op["op"]
            if k == "template":
                net = ops.apply_template(op)
                ctx.event("template", op["name"])
                continue
            if net is None:
                continue
            ctx.sim["ops"] += 1
            if k in ("create", "toggle", "set"):
                st, _ = ops.apply_basic(net, op)
                ctx.event(k, st)
            elif k == "reindex":
                import pandapower.toolbox as tb
                t = op["table"]
                idx = net[t].index.tolist() if t in net else []
                if len(idx) < 2:
                    continue
                if op["mode"] == "spread":
                    lookup = {x: 3 * x + 5 for x in idx}
                elif op["mode"] == "rotate":
                    lookup = {idx[j]: idx[(j + 1) % len(idx)] for j in range(len(idx))}
                else:
                    lookup = None
                if lookup is not None:
                    (tb.reindex_buses if t == "bus" else lambda n_, l_: tb.reindex_elements(n_, t, lookup=l_))(net, lookup)
                else:
                    net[t] = net[t].iloc[::-1]         # same labels, rows in reverse order
                ctx.probe("non_contiguous_or_unsorted_element_index")
                ctx.event("reindex", t, op["mode"])
            elif k == "const_control":
                el, var = op["element"], op["variable"]
                if el not in net or len(net[el]) == 0 or var not in net[el].columns:
                    ctx.event("const_control", el, var, "noop")
                    continue
                rows = []
                for r in op["rows"]:
                    x = ops.pick_row(net, el, r)
                    if x not in rows:
                        rows.append(x)
                if var == "tap_pos":
                    rows = [r for r in rows if not pd.isna(net[el].at[r, "tap_pos"])]
                    if not rows or "trafo.tapctrl" in ctrl_desc:
                        continue
                profiles = {f"{el}_{var}_{r}_{len(ctrl_desc)}": _profile_values(net, op, r) for r in rows}
                names = list(profiles)
                if op["source"] == "sim":
                    ds = SimData(profiles)
                else:
                    ds = DFData(pd.DataFrame(profiles))
                multi = len(rows) > 1
                # scale factors only for powers: half a voltage setpoint is not a sane operating point and
                # invites solutions in another basin (which start-point differences may legitimately reach)
                scale = op["scale"] if var in ("p_mw", "q_mvar") else 1.0
                ConstControl(net, el, var, element_index=rows if multi else rows[0],
                             profile_name=names if multi else names[0], data_source=ds,
                             scale_factor=scale, recycle=op["recycle"], in_service=op.get("ctrl_in_service", True))
                if not op.get("ctrl_in_service", True):
                    ctx.probe("controller_out_of_service")
                ctrl_desc.append(f"{el}.{var}")
                if el == "line":
                    ctx.probe("line_parameter_controlled")
                if multi:
                    ctx.probe("multi_index_controller")
                ctx.event("const_control", el, var, rows, op["source"])
            elif k == "tap_control":
                from pandapower.control import DiscreteTapControl, ContinuousTapControl
                cands = [t for t in net.trafo.index if not pd.isna(net.trafo.at[t, "tap_pos"])
                         and net.trafo.at[t, "tap_side"] in ("hv", "lv")
                         and not ("tap_dependency_table" in net.trafo.columns
                                  and bool(net.trafo.at[t, "tap_dependency_table"]))]
                t = ops.pick(cands, op["row"])
                if t is None or any(d.startswith("trafo.") for d in ctrl_desc):
                    ctx.event("tap_control", "noop")
                    continue
                if op["kind"] == "discrete":
                    DiscreteTapControl(net, int(t), op["vm_set"] - op["half"], op["vm_set"] + op["half"])
                else:
                    ContinuousTapControl(net, int(t), op["vm_set"], tol=1e-4)
                ctrl_desc.append("trafo.tapctrl")
                ctx.probe("tap_controller_in_loop")
                ctx.event("tap_control", op["kind"], int(t))
            elif k == "output_writer":
                ow_op = op
            elif k == "run_timeseries":
                if ow_op is None or not len(net.controller):
                    ctx.event("run_timeseries", "noop")
                    continue
                if tmpdir is None and ow_op["path"]:
                    tmpdir = f"/dev/shm/ppsim-{os.getpid()}-{ctx.ep.get('episode_index', 0)}"
                    os.makedirs(tmpdir, exist_ok=True)
                n_runs += 1
                if n_runs == 2:
                    ctx.probe("second_run_on_same_net")
                _exec_run(net, op, ow_op, i, ctx, ctrl_desc, tmpdir, owm)
    finally:
        if tmpdir:
            shutil.rmtree(tmpdir, ignore_errors=True)


def _make_ow(net, ow_op, time_steps, tmpdir, ctx=None):
    from pandapower.timeseries import OutputWriter
    if ow_op.get("ctor_logs"):
        lv, wanted = [], []
        for lg in ow_op["logs"]:
            t, v = lg["table"], lg["variable"]
            if t[4:] in net and (t, v) not in lv:
                if not len(net[t[4:]]):
                    ctx is not None and ctx.probe("variable_of_empty_element_table_requested")
                lv.append((t, v))
                wanted.append((t, v, None, None, None))
        ow = OutputWriter(net, time_steps, output_path=tmpdir if ow_op["path"] else None,
                          output_file_type=ow_op["ftype"], write_time=ow_op["write_time_min"], log_variables=lv)
        return ow, wanted
    ow = OutputWriter(net, time_steps, output_path=tmpdir if ow_op["path"] else None,
                      output_file_type=ow_op["ftype"], write_time=ow_op["write_time_min"],
                      log_variables=None if ow_op["log_defaults"] else list())
    wanted = []
    requests = []
    seen = set()
    for lg in ow_op["logs"]:
        t, v = lg["table"], lg["variable"]
        el = t[4:]
        if el not in net:
            continue
        if len(net[el]) == 0:
            # a variable of an element type without elements is still a request that must be recorded (no columns)
            if lg["eval"] or lg["subset"] or (t, v, None) in seen:
                continue
            seen.add((t, v, None))
            ow.log_variable(t, v)
            wanted.append((t, v, None, None, None))
            ctx is not None and ctx.probe("variable_of_empty_element_table_requested")
            continue
        # one request per (table, variable, eval): repeated requests for the same output column are
        # merged by the OutputWriter in ways the column names cannot tell apart
        if (t, v, lg["eval"]) in seen or (ow_op["log_defaults"] and (t, v) in (("res_bus", "vm_pu"),
                                                                              ("res_line", "loading_percent"))):
            continue
        seen.add((t, v, lg["eval"]))
        index = None
        if lg["subset"]:
            # in the order the user lists them (not necessarily the order of the element table)
            index = list(dict.fromkeys(ops.pick(net[el].index.tolist(), s) for s in lg["subset"]))
            if index != sorted(index):
                ctx is not None and ctx.probe("subset_logged_in_non_table_order")
        ef = {"max": np.max, "sum": np.sum}.get(lg["eval"])
        en = f"{lg['eval']}_{t}_{v}" if ef is not None else None
        # the documented forms of `index`: one index, list, numpy array, pandas Index
        form = lg.get("index_form", "list")
        arg = index
        if index is not None:
            if form == "scalar":
                index = index[:1]
                arg = index[0]
            elif form == "array":
                arg = np.array(index)
            elif form == "pd_index":
                arg = pd.Index(index)
        if ef is not None and not lg.get("eval_named", True):
            # documented default name of an evaluation column
            en_arg = None
            en = "%s.%s.%s.%s" % (t, v, str(index if index is not None else net[el].index.tolist()), ef.__name__)
        else:
            en_arg = en
        ow.log_variable(t, v, index=arg, eval_function=ef, eval_name=en_arg)
        requests.append((t, v, arg, ef, en_arg))
        wanted.append((t, v, index, lg["eval"], en))
    if ow_op.get("relog") and requests:
        # the user drops a variable again and requests it anew (all requests of that table / variable)
        t0, v0 = requests[0][0], requests[0][1]
        ow.remove_log_variable(t0, v0)
        for (t, v, arg, ef, en_arg) in requests:
            if (t, v) == (t0, v0):
                ow.log_variable(t, v, index=arg, eval_function=ef, eval_name=en_arg)
        ctx is not None and ctx.probe("variable_removed_and_requested_again")
    if ow_op["log_defaults"]:
        wanted.append(("res_bus", "vm_pu", None, None, None))
        wanted.append(("res_line", "loading_percent", None, None, None))
    return ow, wanted


_LAST_OW = {}


def _exec_run(net, op, ow_op, i, ctx, ctrl_desc, tmpdir, owm):
    import pandapower as pp
    from pandapower.timeseries import run_timeseries
    from pandapower.auxiliary import LoadflowNotConverged, ControllerNotConverged, NetCalculationNotConverged
    ts_arg, ts_list = build_time_steps(op)
    if ts_arg is None:
        # time_steps=None takes the steps from the data source of controller 0: only if that one has a data source
        first = net.controller.object.at[0] if len(net.controller) and 0 in net.controller.index else None
        if getattr(first, "data_source", None) is None:
            ts_arg, ts_list = range(op["n_steps"]), list(range(op["n_steps"]))
        else:
            ctx.probe("time_steps_from_data_source")
    # replica BEFORE the run: same element state, own controllers and data sources
    replica = copy.deepcopy(net)
    if "output_writer" in replica:
        del replica["output_writer"]
    clock = SimClock()
    old_pc = owm.perf_counter
    owm.perf_counter = clock.now
    prev = _LAST_OW.get(id(net))
    if op.get("reuse_ow") and prev is not None and "output_writer" in net and len(net.output_writer) \
            and net.output_writer.iat[0, 0] is prev[0]:
        ow, wanted = prev
        if "dump_to_file" in ow.__dict__:
            del ow.__dict__["dump_to_file"]          # (the counting wrapper of the previous run)
        ctx.probe("second_run_with_the_same_output_writer")
    else:
        ow, wanted = _make_ow(net, ow_op, ts_arg, tmpdir, ctx)
    _LAST_OW.clear()
    _LAST_OW[id(net)] = (ow, wanted)
    if not wanted:
        owm.perf_counter = old_pc
        ctx.event("run_timeseries", "nothing-to-log")
        return
    wrapper = RunWrapper(op["run"], ctx, op["fail_at"])
    for _ in op["fail_at"]:
        ctx.fault_configured("callback-fail")
    dumps = []
    orig_dump = ow.dump_to_file

    def counting_dump(net_, append=False, recycle_options=None):
        dumps.append(bool(append))
        return orig_dump(net_, append=append, recycle_options=recycle_options)
    ow.dump_to_file = counting_dump

    step_start = {}
    tap_at_start = {}
    live_tapctrl = "trafo.tapctrl" in ctrl_desc

    def progress(j, time_step, time_steps, **kw):
        step_start[j] = wrapper.n          # run invocations issued before this step
        if live_tapctrl:
            tap_at_start[j] = net.trafo["tap_pos"].copy()
        if ow_op["write_time_min"] is not None:
            ctx.fault_configured("clock-jump")
            dt = op["dt"][j % len(op["dt"])]
            clock.advance(dt)
            if dt > ow_op["write_time_min"] * 60:
                ctx.fault_fired("clock-jump")

    kw = dict(op["kw"])
    if op["recycle"] is False:
        kw["recycle"] = False
    try:
        _, exc = c08._plain_call(lambda: run_timeseries(
            net, time_steps=ts_arg, continue_on_divergence=op["continue_on_divergence"], verbose=False,
            run=wrapper, progress_function=progress, **kw))
    finally:
        owm.perf_counter = old_pc
    live_final_taps = net.trafo["tap_pos"].copy() if "trafo" in net and len(net.trafo) else None
    ctx.sim["time_steps"] += len(ts_list)
    ctx.sim["run_invocations"] += wrapper.n
    if wrapper.recycled:
        ctx.probe("recycled_power_flow_executed", wrapper.recycled)
    if wrapper.only_v:
        ctx.probe("only_v_results", wrapper.only_v)
    if wrapper.dc_recycled:
        ctx.probe("dc_recycled_power_flow_executed", wrapper.dc_recycled)
    if any(dumps[:-1]) or (dumps and dumps[0] and len(dumps) > 1):
        ctx.probe("intermediate_dump")
    batch = any(isinstance(x, tuple) for x in ow.output_list)
    if batch:
        ctx.probe("batch_read_path_taken")
    # ---- reference: fresh power flow per step on the replica ---------------------------------------
    ref = {}          # (table, var) -> {step: array by element index (Series)}
    has_tapctrl = "trafo.tapctrl" in ctrl_desc
    ref_failed = {}
    ref_abnormal = {}
    ref_exc_types = set()
    run_ref = pp.runpp if op["run"] == "runpp" else pp.rundcpp
    order = []
    if len(replica.controller):
        from pandapower.control.run_control import get_controller_order
        _, corder = get_controller_order(replica, replica.controller)
        order = [c for lvl in corder for c, _ in lvl]
    for pos_, t in enumerate(ts_list):
        for c in order:
            c.time_step(replica, t)
        if has_tapctrl:
            # tap controllers act inside the step (dead band / tolerance: where their loop stops depends on the
            # iterates, and a loop interrupted by a failed evaluation leaves its taps behind): the reference is a
            # fresh power flow of the element state the live step ENDED with - the tap positions seen at the
            # start of the next step (progress seam), after the last step those of the net
            tap_end = tap_at_start.get(pos_ + 1) if pos_ + 1 < len(ts_list) else live_final_taps
            if tap_end is None:
                ref_failed[t] = True
                ref_abnormal[t] = False
                for c in order:
                    c.finalize_step(replica, t)
                continue
            replica.trafo["tap_pos"] = tap_end.reindex(replica.trafo.index).values
            ctx.probe("replica_adopts_live_tap_state_after_failed_step")
            fresh = oracles.scrubbed_copy(replica)
            if len(fresh.controller):
                fresh.controller["in_service"] = False       # (plain power flow of that state)
            _, e = c08._plain_call(lambda: run_ref(fresh, **op["kw"]))
        else:
            fresh = oracles.scrubbed_copy(replica)
            _, e = c08._plain_call(lambda: run_ref(fresh, **op["kw"]))
        ref_failed[t] = e is not None
        ref_abnormal[t] = False
        if e is None and op["run"] == "runpp":
            try:
                it = int(fresh._ppc["iterations"])
            except Exception:
                it = 0
            vm = fresh.res_bus.vm_pu.values
            vm = vm[~np.isnan(vm)]
            # (a stressed step: from its solution the recycled next step may converge to the low-voltage solution of
            # the next state - seen with 6 iterations / 0.855 p.u. followed by a 9-iteration low-voltage solution)
            ref_abnormal[t] = it > 5 or (len(vm) and (vm.min() < 0.9 or vm.max() > 1.1))
        if e is not None:
            ref_exc_types.add(type(e).__name__)
        if e is None:
            for (tab, var, index, ev, en) in wanted:
                if tab in fresh and var in fresh[tab].columns:
                    ref[(tab, var, t)] = fresh[tab][var].copy()
        for c in order:
            c.finalize_step(replica, t)
    # ---- compare -------------------------------------------------------------------------------------
    def _cls(d):
        el, var = d.split(".")
        if el == "line":
            return "line-param"
        if var == "tapctrl":
            return "tap-controller"
        if el in ("trafo", "trafo3w"):
            return "trafo-param"
        if el in ("gen", "ext_grid"):
            return "gen-setpoint"
        return "bus-pq"
    ctrl_key = "+".join(sorted({_cls(d) for d in ctrl_desc}))
    path = "batch-read" if batch else "recycled" if wrapper.recycled else "plain"
    sigs = []

    def bad(kind, logged, detail):
        sig = f"C12|ctrl:{ctrl_key}|table:{logged.split('.')[0].split(',')[0]}|path:{path}|{kind}"
        if kind == "0-vs-NaN at out-of-service branch":
            sig = f"C12|path:{path}|{kind}"       # one class, whatever is controlled / logged
        if sig not in sigs:
            sigs.append(sig)
            ctx.violation(sig, f"op{i}: run_timeseries(time_steps={ts_list}, run={op['run']}, recycle={op['recycle']}, "
                               f"continue_on_divergence={op['continue_on_divergence']}): {detail}", op=i)

    expected_errors = (LoadflowNotConverged, ControllerNotConverged, NetCalculationNotConverged)
    if exc is not None:
        planned_or_natural = bool(wrapper.raised)
        if isinstance(exc, expected_errors) and not op["continue_on_divergence"] and \
                (planned_or_natural or isinstance(exc, ControllerNotConverged)):
            ctx.conclusive += 1
            ctx.features.append(f"{ctrl_key}|{sorted((w[0], w[1]) for w in wanted)}|{path}|raised-documented")
            ctx.event("run_timeseries", type(exc).__name__, wrapper.n, dumps, sigs)
            return
        if type(exc).__name__ in ref_exc_types and not isinstance(exc, expected_errors):
            # the fresh power flow of some step rejects the input in the same way (e.g. conflicting voltage
            # setpoints at one bus): nothing to record, nothing to compare
            ctx.inconclusive += 1
            ctx.event("run_timeseries", "input-rejected", type(exc).__name__)
            return
        bad(f"raised {type(exc).__name__}", ",".join(sorted({f'{w[0]}.{w[1]}' for w in wanted})),
            f"raised {type(exc).__name__}: {exc!s:.200} (documented not-converged errors with "
            f"continue_on_divergence=False are the only allowed exceptions)")
        ctx.conclusive += 1
        ctx.event("run_timeseries", type(exc).__name__, wrapper.n, dumps, sigs)
        return
    failed_steps = set()
    pf_failed_steps = set()
    params = ow.output.get("Parameters")
    # steps at which the live run had a failing evaluation: identified via the recorded wrapper failures is
    # not step-exact, so the (documented) Parameters table is read, falling back to the replica
    if params is not None and "powerflow_failed" in params and not any(dumps[:-1]):
        failed_steps = set(params.index[params["powerflow_failed"].values.astype(bool)].tolist())
        pf_failed_steps = set(failed_steps)
        if "controller_unstable" in params:
            # (a control loop that did not converge inside the step: documented flag, no results for that step)
            failed_steps |= set(params.index[params["controller_unstable"].values.astype(bool)].tolist())
    any_compared = False
    failed_seen = False
    for (tab, var, index, ev, en) in wanted:
        name = f"{tab}.{var}"
        logged = name + (f"[{ev}]" if ev else "") + ("[subset]" if index else "")
        if name not in ow.output:
            bad("variable missing", logged, f"requested variable {name} is missing from OutputWriter.output "
                                            f"(keys {sorted(ow.output)[:8]})")
            continue
        df = ow.output[name]
        el = tab[4:]
        cols = [en] if ev else (index if index is not None else net[el].index.tolist())
        missing = [c for c in cols if c not in df.columns]
        if missing:
            bad("variable missing", logged, f"{name}: columns {missing[:4]} missing from the recorded frame "
                                            f"(has {list(df.columns)[:6]})")
            continue
        prev_failed = False
        tainted = False
        flags_known = params is not None and "powerflow_failed" in params and not any(dumps[:-1])
        for pos, t in enumerate(ts_list):
            if t not in df.index:
                bad("step missing", logged, f"{name}: time step {t} missing from the recorded frame")
                break
            if has_tapctrl and not flags_known:
                # (after intermediate dumps the failure flags of the steps are not available; with a control loop
                # inside the step the reference cannot tell a failed step from a recorded one)
                continue
            # did the last evaluation of this step raise (seen at the run seam)?
            lo_n = step_start.get(pos, 0)
            hi_n = step_start.get(pos + 1, wrapper.n)
            last_raised = hi_n > lo_n and hi_n in wrapper.raised
            if last_raised and flags_known and t not in failed_steps:
                bad("failed step not flagged", logged,
                    f"{name}: the last power flow evaluation of time step {t} raised, but the step is not recorded "
                    f"as failed (values {df.loc[t, cols].values[:3]})")
                break
            live_failed = ((t in failed_steps) if flags_known else ref_failed[t]) or last_raised
            if live_failed and flags_known and t in pf_failed_steps and not tainted and not ref_failed[t] and \
                    not ref_abnormal[t] and (tab, var, t) in ref and \
                    not any(lo_n < r_ <= hi_n for r_ in wrapper.fail_at):
                # the step is recorded as failed although nothing was planned to fail in it and a fresh power flow
                # of its element state converges in a few iterations to an ordinary operating point
                bad("step fails although a fresh power flow converges", logged,
                    f"{name}: time step {t} is recorded as failed (power flow did not converge) - a fresh power flow "
                    f"of that step converges to an ordinary operating point; previous live step failed: {prev_failed}")
                break
            if live_failed:
                # the failed evaluation discards the recycled state (net._ppc): the next step starts afresh
                prev_failed = True
                tainted = False
                failed_seen = True
                continue
            if ref_failed[t] or ref_abnormal[t]:
                # an extreme step that the live run survived from its own start point: from here on the live
                # run may legitimately follow another solution branch (start-point effect) -> inconclusive
                tainted = True
                failed_seen = True
                continue
            if tainted:
                continue
            if (tab, var, t) not in ref:
                continue
            want = ref[(tab, var, t)]
            if ev:
                sel = want if index is None else want.loc[index]
                w = np.array([{"max": np.max, "sum": np.sum}[ev](sel.values)])
            else:
                w = want.loc[cols].values.astype(float)
            got = df.loc[t, cols].values.astype(float)
            # live (recycled: started from the previous step) and fresh (default start) are two runs of an
            # iterative solver stopped at tolerance_mva=1e-8: on a 0.25 MVA transformer that is 4e-6 % loading
            d = oracles.compare_arrays(got, w, 5e-5, 5e-5)
            any_compared = True
            if d:
                kind = "step after failure differs" if prev_failed else \
                    ("values differ at step 0" if pos == 0 else "values differ from step k>0")
                if d[0] == "nan_pattern" and not ev and el in ("line", "trafo", "trafo3w"):
                    # specific class: 0 on one side, NaN on the other, only at branches that are out of service
                    gn, wn = np.isnan(got), np.isnan(w)
                    mism = gn != wn
                    oos = ~net[el].in_service.reindex(cols).values.astype(bool)
                    # (a branch with an open switch at one of its ends is not calculated either)
                    et_code = {"line": "l", "trafo": "t", "trafo3w": "t3"}[el]
                    sw = net.switch[(net.switch.et == et_code) & ~net.switch.closed.astype(bool)]
                    oos = oos | np.isin(np.asarray(cols), sw.element.values)
                    other = np.where(gn, w, got)[mism]
                    if mism.any() and oos[mism].all() and np.all(other == 0.0) and \
                            not oracles.compare_arrays(got[~mism], w[~mism], 1e-6, 1e-6):
                        kind = "0-vs-NaN at out-of-service branch"
                bad(kind, logged, f"{name} at time step {t} (position {pos}): recorded {got[:4]} vs fresh power flow "
                                  f"{w[:4]} ({d[0]} {d[1]})")
                break
            if prev_failed:
                ctx.probe("step_failed_then_next_step_checked")
            prev_failed = False
    # files
    if tmpdir and ow_op["path"]:
        for (tab, var, index, ev, en) in wanted:
            fp = os.path.join(tmpdir, tab, f"{var}{ow_op['ftype']}")
            if not os.path.exists(fp):
                bad("file missing", f"{tab}.{var}", f"output file {fp} was not written")
    if any_compared:
        ctx.conclusive += 1
        ctx.features.append(f"{'+'.join(sorted(set(ctrl_desc)))}|{sorted((w[0], w[1], bool(w[2]), str(w[3])) for w in wanted)}|{path}|"
                            f"{op['recycle']}|{op['run']}|{[int(x) for x in dumps]}|{failed_seen}|{op['form']}")
    else:
        ctx.inconclusive += 1
    first = None
    for (tab, var, index, ev, en) in wanted[:1]:
        if f"{tab}.{var}" in ow.output:
            first = [oracles.sig_round(float(x), 7) for x in
                     np.nan_to_num(ow.output[f"{tab}.{var}"].values.astype(float)).ravel()[:5]]
    ctx.event("run_timeseries", "ok", wrapper.n, wrapper.recycled, dumps, sorted(failed_steps), first, sigs)
