"""C09 -- calculation results do not depend on the history of the network object.

Histories: seeded interleavings of edits, switching, successful / naturally failing / interrupted
calculations of every kind.  Oracle (probe): the same calculation on a scrubbed deep copy of the
current state.
"""
import copy

import numpy as np
import pandas as pd

from .. import nets, ops, oracles, tracer
from . import c08

PROPERTY = "C09"
BUDGET = {"quick": 700, "thorough": 25000}
WALL_CAP = {"quick": 150, "thorough": 1500}
RULE = ("Episodes = template net + 10-35 seeded ops: edits (setpoints, taps, in_service, switches, creates, "
        "drops), history-making calculations of every kind (success / natural failure / injected exception) "
        "and probes. A probe runs one calculation on the live object and on a scrubbed deep copy of the "
        "current state and compares outcome class and result tables. Non-trivial = the probe was conclusive "
        "(both sides produced comparable outcomes); distinct = distinct (probe kind+option class, abstracted "
        "history since the previous probe [op families, length<=4], outcome class)."
        ' Element table rows are reordered between calculations; explicit start vector forms; the init-results judgement needs ordinary operating points and Newton-Raphson.')
COMPONENTS = {"real": ["all pandapower calculation pipelines on the live net", "the same pipelines on the scrubbed copy "
                       "(reference)"], "stub": ["none"]}
ASSUMPTIONS = ["a scrubbed deep copy (results reset, all _-prefixed internal state reset) is 'a fresh copy of the "
               "current state'", "numerical equality: |a-b| <= 1e-6 + 1e-6|b| (both sides solved to 1e-8 MVA)",
               "init='results': a documented refusal (index mismatch UserWarning) is inconclusive; a failure to "
               "converge counts only when the previous converged result is <= 2 switching/small-setpoint edits old",
               "recycle= is never passed (its contract is reuse; decided under C12)"]
REACH_PROBES = ["probe_after_failed_calc", "probe_after_interrupted_calc", "probe_with_nan_rows_in_previous_result",
                "probe_after_other_mode_calc", "probe_init_results", "probe_after_structural_edit",
                "element_table_rows_reordered"]

TEMPLATE_W = [("case9", 5), ("feeder", 4), ("feeder_dcline", 3), ("case9_dcline", 2), ("feeder_taptable", 2),
              ("four_bus", 2), ("cigre_mv", 2), ("case14", 2), ("ph3", 2), ("feeder_t3w", 1), ("case5", 1)]
HIST_CALC_W = [("runpp", 8), ("rundcpp", 3), ("runopp", 1), ("rundcopp", 1), ("runpp_3ph", 1), ("calc_sc", 3),
               ("run_contingency", 1)]
PROBE_W = [("runpp", 12), ("rundcpp", 2), ("runopp", 1), ("calc_sc", 2), ("runpp_3ph", 1)]
SWITCHY = [("line", "in_service"), ("line", "in_service"), ("switch", "closed"), ("trafo", "in_service"),
           ("bus", "in_service"), ("load", "in_service"), ("gen", "in_service"), ("sgen", "in_service")]


# a default-start Newton-Raphson that needs more than 6 of its 10 iterations is at the edge of its own convergence
# region: what a different start point does there is a numerical-basin question, not a history question
WELL_CONDITIONED_ITERS = 6


def warm():
    c08.warm()


def gen_probe(rng):
    kind = c08._wchoice(rng, PROBE_W)
    kw = {}
    if kind == "runpp":
        r = rng.random()
        if r < 0.45:
            kw["init"] = "results"
        elif r < 0.55:
            kw["init_vm_pu"] = "results"
            kw["init_va_degree"] = "results"
        elif r < 0.65:
            kw["init"] = rng.choice(["flat", "dc"])
        elif r < 0.72:
            # explicit start vector forms (scalar / "flat" / "dc" for the angles)
            kw["init_vm_pu"] = rng.choice([1.0, 1.02, "flat"])
            kw["init_va_degree"] = rng.choice(["dc", "flat", 0.0])
        if rng.random() < 0.25:
            kw["algorithm"] = rng.choice(["iwamoto_nr", "bfsw", "fdbx"])
        if rng.random() < 0.2:
            kw["numba"] = False
        if rng.random() < 0.15:
            kw["lightsim2grid"] = False
        if rng.random() < 0.15:
            kw["enforce_q_lims"] = True
        if rng.random() < 0.1:
            kw["check_connectivity"] = False
    elif kind == "calc_sc":
        kw = {"fault": rng.choice(["3ph", "2ph", "1ph"]), "case": rng.choice(["max", "min"])}
        if rng.random() < 0.4:
            kw["branch_results"] = True
    elif kind == "runopp":
        if rng.random() < 0.3:
            kw["init"] = "results"
    return {"op": "probe", "kind": kind, "kw": kw}


def generate(rng, idx, tier):
    cfg = {"template": c08._wchoice(rng, TEMPLATE_W), "n_ops": rng.randint(10, 35),
           "fault_rate": rng.choice([0.0, 0.15, 0.3]), "natural_rate": rng.choice([0.1, 0.2]),
           "w": {"edit": rng.choice([2, 4]), "switch": rng.choice([2, 4, 6]), "calc": rng.choice([2, 3]),
                 "probe": rng.choice([2, 3]), "create": rng.choice([0, 1]), "drop": rng.choice([0, 0, 1])},
           "exc_types": rng.sample(["InjectedFault", "KeyboardInterrupt", "MemoryError"], rng.randint(1, 2))}
    ol = [{"op": "template", "name": cfg["template"]}]
    fam = [(k, w) for k, w in cfg["w"].items() if w > 0]
    for _ in range(cfg["n_ops"]):
        f = c08._wchoice(rng, fam)
        if f == "edit":
            if rng.random() < 0.08:
                # the rows of an element table in another order (same labels): positions must never stand for labels
                ol.append({"op": "reorder", "table": rng.choice(["bus", "bus", "line", "load", "gen", "trafo"]),
                           "how": rng.choice(["reverse", "sort"])})
            else:
                ol.append(ops.gen_set(rng))
        elif f == "switch":
            ol.append(ops.gen_toggle(rng, SWITCHY))
            if rng.random() < 0.35:     # bias: switching lands right before a probe
                ol.append(gen_probe(rng))
        elif f == "create":
            ol.append(ops.gen_create(rng, ["load", "sgen", "gen", "line", "switch_l", "switch_b", "bus", "shunt"]))
        elif f == "drop":
            ol.append({"op": "drop", "et": rng.choice(["load", "sgen", "line", "bus"]), "row": rng.randrange(1000)})
        elif f == "calc":
            kind = c08._wchoice(rng, HIST_CALC_W)
            r = rng.random()
            stratum = "inject" if r < cfg["fault_rate"] else \
                "natural" if r < cfg["fault_rate"] + cfg["natural_rate"] else "none"
            kw, natural = c08.gen_calc_kw(rng, kind)
            kw.pop("distributed_slack", None)
            op = {"op": "calc", "kind": kind, "kw": kw, "stratum": stratum}
            if stratum == "natural":
                op["natural"] = natural
            if stratum == "inject":
                op["fault"] = c08.gen_fault(rng, cfg["exc_types"])
            ol.append(op)
        else:
            ol.append(gen_probe(rng))
    ol.append(gen_probe(rng))
    return {"cfg": cfg, "ops": ol}


def simplify_op(op):
    out = []
    if op.get("op") in ("calc", "probe") and op.get("kw"):
        for k in sorted(op["kw"]):
            if k in ("cases", "fault", "case"):
                continue
            o = copy.deepcopy(op)
            del o["kw"][k]
            out.append(o)
    if op.get("op") == "calc" and op.get("stratum") != "none":
        o = copy.deepcopy(op)
        o["stratum"] = "none"
        o.pop("fault", None)
        o.pop("natural", None)
        out.append(o)
    return out


# ---------------------------------------------------------------------------------------------
RES_TABLES = {"runpp": None, "rundcpp": None, "runopp": None, "rundcopp": None}


def _tables_for(kind, ref):
    keys = [k for k in ref.keys() if k.startswith("res_") and isinstance(ref[k], pd.DataFrame)]
    if kind == "calc_sc":
        return [k for k in keys if k.endswith("_sc")]
    if kind == "runpp_3ph":
        return [k for k in keys if k.endswith("_3ph")]
    return [k for k in keys if not k.endswith(("_sc", "_3ph", "_est"))]


def _is_refusal(exc):
    """documented refusals to start from results that do not belong to the current network"""
    msg = str(exc)
    return isinstance(exc, UserWarning) and ("index" in msg.lower() or "results" in msg.lower() or "init" in msg.lower())


def _opt_class(kind, kw):
    if kind != "runpp":
        return "init-results" if kw.get("init") == "results" else "default"
    if kw.get("init") == "results" or kw.get("init_vm_pu") == "results":
        return "init-results"
    if any(k in kw for k in ("algorithm", "numba", "lightsim2grid", "enforce_q_lims", "check_connectivity")):
        return "solver-variant"
    return "default"


class Hist:
    def __init__(self):
        self.since_probe = []          # op families since the previous probe
        self.last_feature = "none"
        self.conv_age = None           # edit ops since the last converged AC power flow on the live net
        self.nearby = True             # all edits since then were switching / small setpoint changes
        self.prev_had_nan = False
        self.prev_valid = False        # the last converged AC result on the live net is a default-start
                                       # solution (not a flat-start / results-start one that may sit in
                                       # another basin)


def execute(ep, ctx):
    net = None
    h = Hist()
    for i, op in enumerate(ep["ops"]):
        k = op["op"]
        if k == "template":
            net = ops.apply_template(op)
            ctx.event("template", op["name"])
            continue
        if net is None:
            continue
        ctx.sim["ops"] += 1
        if k in ("create", "set", "toggle"):
            st, info = ops.apply_basic(net, op)
            ctx.event(k, op.get("et") or op.get("table"), st)
            if st == "ok":
                fam = "switch" if k == "toggle" else k
                h.since_probe.append(fam)
                if h.conv_age is not None:
                    h.conv_age += 1
                if k == "create":
                    h.nearby = False
                    h.last_feature = "reindex/drop"
                elif k == "set":
                    if not ("mul" in op and 0.8 <= op["mul"] <= 1.2):
                        h.nearby = False
                elif k == "toggle":
                    h.last_feature = "switching"
        elif k == "reorder":
            t = op["table"]
            if t in net and len(net[t]) > 1:
                net[t] = net[t].iloc[::-1] if op["how"] == "reverse" else net[t].sort_index()
                ctx.probe("element_table_rows_reordered")
                h.since_probe.append("reorder")
                h.nearby = False
                h.last_feature = "reindex/drop"
                if h.conv_age is not None:
                    h.conv_age += 1
            ctx.event("reorder", t, op["how"])
        elif k == "drop":
            _exec_drop(net, op, ctx, h)
        elif k == "calc":
            _exec_hist_calc(net, op, i, ctx, h)
        elif k == "probe":
            _exec_probe(net, op, i, ctx, h)


def _exec_drop(net, op, ctx, h):
    import pandapower as pp
    et = op["et"]
    row = ops.pick_row(net, et, op["row"])
    if row is None or (et == "bus" and len(net.bus) <= 3):
        ctx.event("drop", et, "noop")
        return
    try:
        if et == "bus":
            if row in set(net.ext_grid.bus.values):
                ctx.event("drop", et, "noop")
                return
            pp.drop_buses(net, [row])
        elif et == "line":
            pp.drop_lines(net, [row])
        else:
            pp.drop_elements(net, et, [row])
        ctx.event("drop", et, "ok")
        h.since_probe.append("drop")
        h.nearby = False
        h.last_feature = "reindex/drop"
        if h.conv_age is not None:
            h.conv_age += 1
    except Exception as e:
        ctx.event("drop", et, "raised", type(e).__name__)


def _exec_hist_calc(net, op, i, ctx, h):
    kind, stratum = op["kind"], op["stratum"]
    ctx.sim["calculations"] += 1
    undo = lambda: None
    kw = copy.deepcopy(op["kw"])
    if stratum == "natural":
        kw, undo = c08.apply_natural(net, op)
        ctx.fault_configured("natural-fail")
    fired = None
    if stratum == "inject":
        f = op["fault"]
        ctx.fault_configured(f"raise@{f['gran']}")
        dry = copy.deepcopy(net)
        counter = tracer.Tracer(gran=f["gran"])
        counter.run(lambda: ops.run_calc(dry, kind, copy.deepcopy(kw)))
        index = tracer.resolve_plan(counter, f)
        if index is None:
            _, exc = c08._plain(net, kind, kw)
        else:
            tr = tracer.Tracer(gran=f["gran"], index=index, exc=tracer.EXC_TYPES[f["exc"]]("ppsim fault"),
                               record_sites=False)
            _, exc = tr.run(lambda: ops.run_calc(net, kind, kw))
            fired = tr.fired
            if fired:
                ctx.fault_fired(f"raise@{f['gran']}")
                ctx.sites.add(f"{fired['file']}:{fired['func']}")
    else:
        _, exc = c08._plain(net, kind, kw)
    undo()
    outcome = "ok" if exc is None else type(exc).__name__
    if stratum == "natural" and exc is not None:
        ctx.fault_fired("natural-fail")
    ctx.event("calc", kind, stratum, outcome, (fired or {}).get("func"))
    fam = "calc-" + ("ok" if exc is None else ("interrupted" if fired else "failed")) + \
          ("" if kind in ("runpp",) else "-" + kind)
    h.since_probe.append(fam)
    if exc is not None:
        h.last_feature = "interrupted calc" if fired else "failed calc"
        if kind == "runpp":
            h.conv_age = None
    else:
        if kind == "runpp":
            h.conv_age = 0
            h.nearby = True
            h.prev_valid = kw.get("init", "auto") in ("auto", "dc") and "init_vm_pu" not in kw and \
                "init_va_degree" not in kw and \
                kw.get("algorithm", "nr") in ("nr", "iwamoto_nr") and kw.get("calculate_voltage_angles", True) and \
                _normal_operating_point(net)
            h.prev_had_nan = bool(len(net.res_bus) and net.res_bus.vm_pu.isna().any())
            if h.last_feature not in ("switching",):
                h.last_feature = "none"
        else:
            h.last_feature = "other-mode calc"
            if kind in ("rundcpp", "runopp", "rundcopp"):
                h.conv_age = None      # res_bus no longer holds an AC power flow result of runpp


def _exec_probe(net, op, i, ctx, h):
    kind = op["kind"]
    kw = copy.deepcopy(op["kw"])
    ocl = _opt_class(kind, kw)
    init_results = ocl == "init-results"
    ctx.sim["probes"] += 1
    ref = oracles.scrubbed_copy(net)
    kw_ref = {k: v for k, v in kw.items() if k not in ("init", "init_vm_pu", "init_va_degree")} if init_results else kw
    had_results = len(net.res_bus) > 0
    prev_nan = bool(had_results and net.res_bus.vm_pu.isna().any())
    pre_live = copy.deepcopy(net) if init_results and kind == "runpp" and had_results else None
    _, e_live = c08._plain(net, kind, copy.deepcopy(kw))
    _, e_ref = c08._plain(ref, kind, copy.deepcopy(kw_ref))
    o_live = "ok" if e_live is None else type(e_live).__name__
    o_ref = "ok" if e_ref is None else type(e_ref).__name__
    hist = "/".join(h.since_probe[-4:]) or "-"
    feature = h.last_feature
    # reach probes
    if "calc-failed" in " ".join(h.since_probe):
        ctx.probe("probe_after_failed_calc")
    if "calc-interrupted" in " ".join(h.since_probe):
        ctx.probe("probe_after_interrupted_calc")
    if init_results and prev_nan:
        ctx.probe("probe_with_nan_rows_in_previous_result")
    if any(f.startswith("calc-ok-") for f in h.since_probe):
        ctx.probe("probe_after_other_mode_calc")
    if init_results and had_results:
        ctx.probe("probe_init_results")
    if "drop" in h.since_probe or "create" in h.since_probe:
        ctx.probe("probe_after_structural_edit")

    sig = None
    detail = ""
    conclusive = True
    base = f"C09|probe:{kind}|{ocl}"
    # premise of the init='results' clause, operationalised (DESIGN C09): the previous converged
    # result is a default-start solution and at most 2 switching / small-setpoint edits old
    nearby = h.conv_age is not None and h.conv_age <= 2 and h.nearby and h.prev_valid
    if e_ref is not None and e_live is not None:
        # neither side produced results: nothing the property speaks of can differ.  (A different
        # exception class on the two sides is counted, not alarmed: "results" are what must agree.)
        if type(e_ref) is not type(e_live):
            ctx.probe("both_fail_with_different_exception_class")
            conclusive = False
    elif e_ref is not None and e_live is None:
        if init_results:
            conclusive = False      # start point helped; the property only speaks of fresh runs that converge
        else:
            sig = f"{base}|outcome-class-differs|{feature}"
            detail = f"live returned normally; fresh copy raised {o_ref}: {e_ref!s:.160}"
    elif e_ref is None and e_live is not None:
        if init_results:
            iters = _iterations(ref)
            if _is_refusal(e_live) or not had_results:
                conclusive = False
            elif kw.get("algorithm", "nr") != "nr":
                # the convergence region of the other solvers from a given start differs from Newton-Raphson's (the
                # Iwamoto multiplier can stagnate at a local minimum of the mismatch from a start from which plain NR
                # converges in 7 iterations - seen after the outage of a 245 MW generator): only NR is judged here
                conclusive = False
                ctx.probe("init_results_failure_with_non_nr_solver_not_judged")
            elif nearby and (iters is None or iters <= WELL_CONDITIONED_ITERS) and isinstance(e_live, Exception) \
                    and _normal_operating_point(ref) and _slower_but_same(pre_live, kw, ref, e_live, ctx):
                # the start from the previous results reaches the same solution, it only needs more than the default
                # number of iterations (e.g. after the outage of a large generator): "only changes the starting point"
                conclusive = False
            elif nearby and (iters is None or iters <= WELL_CONDITIONED_ITERS) and isinstance(e_live, Exception) \
                    and _normal_operating_point(ref) and not _best_case_start_converges(pre_live, ref, kw, ctx):
                # Newton-Raphson does not get from the previous voltages to the new solution even when the missing
                # entries are filled with the true solution: a start-point effect of the two operating points
                conclusive = False
            elif nearby and (iters is None or iters <= WELL_CONDITIONED_ITERS) and isinstance(e_live, Exception) \
                    and _normal_operating_point(ref):
                sig = f"{base}|init-results-fails-nearby-state|{feature}"
                detail = (f"live runpp({kw}) raised {o_live}: {e_live!s:.120}; the fresh calculation converges "
                          f"(iterations={iters}); previous converged result is {h.conv_age} switching/small edits old, "
                          f"NaN rows in previous result: {prev_nan}")
            else:
                conclusive = False
        else:
            sig = f"{base}|outcome-class-differs|{feature}"
            detail = f"live raised {o_live}: {e_live!s:.160}; fresh copy returned normally"
    elif init_results and kind == "runpp" and not (nearby and (_iterations(ref) or 0) <= WELL_CONDITIONED_ITERS
                                                   and _normal_operating_point(ref)):
        conclusive = False          # a far-away or unvalidated start may legitimately sit in another basin
    else:
        tabs = _tables_for(kind, ref)
        # same start on both sides -> same iterates (1e-6); different start -> equal within what the
        # solver's stopping rule guarantees (NR: 1e-8 MVA mismatch; sweep/decoupled methods are looser)
        tol = 1e-6 if not init_results else \
            (1e-4 if kw.get("algorithm") in ("bfsw", "fdbx", "fdxb", "gs") else 5e-5)
        diffs = oracles.compare_results(net, ref, tables=tabs, rtol=tol, atol=tol)
        if kind in ("runpp", "rundcpp", "runopp", "rundcopp"):
            if bool(net["converged"] if kind in ("runpp", "rundcpp") else net["OPF_converged"]) != \
                    bool(ref["converged"] if kind in ("runpp", "rundcpp") else ref["OPF_converged"]):
                diffs.append(("converged", None, "flag", ""))
        if diffs:
            t, c, what, d = diffs[0]
            dk = "NaN-pattern-differs" if what == "nan_pattern" else \
                "values-differ" if what == "values" else what
            sig = f"{base}|{dk}:{t}|{feature}"
            if init_results and kind == "runpp" and _is_solution_of(net, ref, kw_ref):
                # the live result satisfies the power flow equations of the CURRENT network: Newton-Raphson
                # started from the previous results reached another solution branch (not stale state)
                sig = f"{base}|other-solution-branch"
            detail = (f"live {kind}({kw}) vs fresh copy {kind}({kw_ref}): {t}.{c} {what} {d}; "
                      f"{len(diffs)} column(s) differ; history since previous probe: {hist}")
    if conclusive:
        ctx.conclusive += 1
        ctx.features.append(f"{kind}|{ocl}|{hist}|{o_live}/{o_ref}")
    else:
        ctx.inconclusive += 1
    if sig:
        ctx.violation(sig, f"op{i}: " + detail, op=i)
    vm = None
    if e_live is None and kind == "runpp" and len(net.res_bus):
        vm = [oracles.sig_round(float(x), 8) for x in net.res_bus.vm_pu.values[:5]]
    ctx.event("probe", kind, ocl, o_live, o_ref, conclusive, sig, vm)
    # the probe is itself part of the history
    h.since_probe = []
    if kind == "runpp":
        if e_live is None:
            h.conv_age = 0
            h.nearby = True
            h.last_feature = "none"
            # validated: equal to the default-start reference; or itself a default-start NR run
            h.prev_valid = ((init_results and conclusive and sig is None and e_ref is None) or
                            (not init_results and kw.get("init", "auto") in ("auto", "dc")
                             and "init_vm_pu" not in kw and "init_va_degree" not in kw
                             and kw.get("algorithm", "nr") in ("nr", "iwamoto_nr"))) and _normal_operating_point(net)
        else:
            h.conv_age = None
            h.last_feature = "failed calc"
    else:
        h.last_feature = "other-mode calc" if e_live is None else "failed calc"
        if kind in ("rundcpp", "runopp"):
            h.conv_age = None


def _is_solution_of(live, ref, kw_ref):
    """is the live bus voltage vector a converged solution of the current network? (checked on a scrubbed copy
    started exactly from it: it must be reproduced)"""
    import pandapower as pp
    try:
        vm, va = live.res_bus.vm_pu, live.res_bus.va_degree
        if vm.isna().any() != ref.res_bus.vm_pu.isna().any():
            return False
        test = oracles.scrubbed_copy(live)
        kw = {k: v for k, v in kw_ref.items() if k not in ("init", "init_vm_pu", "init_va_degree")}
        pp.runpp(test, init_vm_pu=vm.fillna(1.0), init_va_degree=va.fillna(0.0), **kw)
        return not oracles.compare_results(test, live, tables=["res_bus"], rtol=1e-5, atol=1e-5)
    except Exception:
        return False



def _normal_operating_point(net):
    """the stored AC result is an ordinary operating point (supplied buses between 0.8 and 1.2 p.u.): a start vector
    taken from a voltage-collapse / low-voltage solution of the previous state lies outside Newton-Raphson's region of
    convergence for the normal solution of the next one - the start-point effect, not a history effect"""
    try:
        vm = net.res_bus.vm_pu.values.astype(float)
    except Exception:
        return False
    vm = vm[~np.isnan(vm)]
    if not (bool(len(vm)) and bool(vm.min() >= 0.8) and bool(vm.max() <= 1.2)):
        return False
    # ... and no line carries an angle difference of more than 30 degrees (seen: 70 degrees across case14 with four
    # lines out - from that start Newton-Raphson does not reach the solution of the re-closed net in 100 iterations)
    try:
        ln = net.line[net.line.in_service.values]
        va = net.res_bus.va_degree
        d = (va.reindex(ln.from_bus.values).values - va.reindex(ln.to_bus.values).values).astype(float)
        d = np.abs(d[~np.isnan(d)])
        return not (len(d) and d.max() > 30.0)
    except Exception:
        return True



def _slower_but_same(pre_live, kw, ref, e_live, ctx):
    """the live run failed with the iteration limit: given five times as many iterations, does the run from the
    previous results converge to the reference solution?"""
    from pandapower.auxiliary import LoadflowNotConverged
    import pandapower as pp
    if pre_live is None or not isinstance(e_live, LoadflowNotConverged) or "max_iteration" in kw:
        return False
    trial = copy.deepcopy(pre_live)          # (pre_live itself is needed again: its results are the start vector)
    _, e2 = c08._plain_call(lambda: pp.runpp(trial, **dict(kw, max_iteration=50)))
    if e2 is not None:
        return False
    d = oracles.compare_results(trial, ref, tables=["res_bus"], rtol=5e-5, atol=5e-5)
    if d:
        return False
    ctx.probe("init_results_slower_but_same_solution")
    return True



def _best_case_start_converges(pre_live, ref, kw, ctx):
    """explicit start vector = the previous bus voltages, entries that are missing there (previously unsupplied or
    new buses) taken from the reference solution - the best any treatment of the previous results could do"""
    import pandapower as pp
    if pre_live is None or not len(pre_live.res_bus):
        return True
    try:
        vm = pre_live.res_bus.vm_pu.reindex(ref.bus.index)
        va = pre_live.res_bus.va_degree.reindex(ref.bus.index)
        miss = vm.isna() | va.isna()
        vm[miss] = ref.res_bus.vm_pu[miss]
        va[miss] = ref.res_bus.va_degree[miss]
        if vm.isna().any() or va.isna().any():
            # (buses without a voltage in the reference as well: out of service / unsupplied)
            vm = vm.fillna(1.0)
            va = va.fillna(0.0)
        t = oracles.scrubbed_copy(pre_live)
        kw2 = {k: v for k, v in kw.items() if k not in ("init", "init_vm_pu", "init_va_degree")}
        _, e = c08._plain_call(lambda: pp.runpp(t, init_vm_pu=vm, init_va_degree=va, **kw2))
    except Exception:
        return True
    if e is not None:
        ctx.probe("init_results_failure_is_a_start_point_effect")
        return False
    return True


def _iterations(net):
    try:
        return int(net._ppc["iterations"])
    except Exception:
        return None
