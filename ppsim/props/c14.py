"""C14 -- contingency analysis reports the true extremes over all N-1 cases.

Seam: contingency_evaluation_function (recording wrapper around the real runpp that can fail at
planned invocation numbers).  Oracle: ExtremesModel recomputed from the recorded per-case history.
"""
import copy

import numpy as np
import pandas as pd

from .. import nets, ops, oracles, tracer
from . import c08

PROPERTY = "C14"
BUDGET = {"quick": 420, "thorough": 12000}
WALL_CAP = {"quick": 150, "thorough": 1500}
RULE = ("Episodes = meshed template net + seeded edits (extra lines, load scaling, limits, elements out of service) "
        "+ 1-2 run_contingency calls with seeded case subsets in seeded ORDER (incl. an element's own outage first), "
        "failing cases (natural non-convergence and callback-fail(n) at the evaluation-function seam), raise_errors, "
        "write_to_net, optional injected exception inside the N-1 loop. Non-trivial = extremes were recomputed from "
        "the recorded per-case history and compared; distinct = distinct (template, number of cases by element type, "
        "own-outage-first, failed-case pattern, raise_errors, write_to_net, second-order permutation class)."
        ' Separate N-0/N-1 option dicts (routing checked at the seam), two seeded N-1 cases re-evaluated independently, recycle option passed, case index forms, rundcpp as evaluation function.')
COMPONENTS = {"real": ["run_contingency, runpp (inside the recording wrapper)"],
              "stub": ["recording/failing wrapper at contingency_evaluation_function", "ExtremesModel"]}
ASSUMPTIONS = ["the per-case results recorded at the evaluation-function seam are the ground truth the extremes are "
               "recomputed from (the property is about aggregation, not about the power flow itself)",
               "ties within 1e-6 relative accept any maximiser as cause", "nets <= 14 buses, <= 12 cases"]
REACH_PROBES = ["own_outage_first", "case_failed_natural", "case_failed_callback", "raise_errors_propagated",
                "injected_in_loop", "second_order_checked", "some_branch_overloaded", "n1_case_recomputed",
                "separate_n0_n1_options", "recycle_option_passed"]

TEMPLATES = [("case9", 4), ("feeder", 3), ("case14", 2), ("feeder_t3w", 2), ("cigre_mv", 1), ("feeder_taptable", 1)]


def warm():
    import pandapower as pp
    from pandapower.contingency import run_contingency
    nets.import_all_pandapower()
    nets.build_templates([t for t, _ in TEMPLATES])
    for name in ("case9", "feeder_t3w"):
        net = nets.get(name)
        try:
            run_contingency(net, {"line": {"index": list(net.line.index[:2])}})
        except Exception:
            pass


def gen_cases(rng, own_first_bias=True):
    n_line = rng.randint(1, 6)
    spec = {"line": [rng.randrange(100) for _ in range(n_line)],
            "trafo": [rng.randrange(100) for _ in range(rng.randint(0, 2))],
            "trafo3w": [rng.randrange(100) for _ in range(rng.choice([0, 0, 1]))]}
    order = rng.sample(["line", "trafo", "trafo3w"], 3)
    return {"spec": spec, "order": order}


def generate(rng, idx, tier):
    cfg = {"template": c08._wchoice(rng, TEMPLATES), "load_scale": rng.choice([1.0, 1.0, 1.5, 2.2, 3.0]),
           "limit": rng.choice([100., 60., 30.])}
    ol = [{"op": "template", "name": cfg["template"]},
          {"op": "scale_loads", "f": cfg["load_scale"]}, {"op": "limits", "v": cfg["limit"],
                                                         "nminus1": rng.random() < 0.3}]
    for _ in range(rng.randint(0, 3)):
        ol.append(ops.gen_create(rng, ["line", "line", "load", "sgen"]))
    for _ in range(rng.randint(0, 2)):
        ol.append(ops.gen_toggle(rng, [("line", "in_service"), ("trafo", "in_service"), ("load", "in_service")]))
    for _ in range(rng.randint(1, 2)):
        cases = gen_cases(rng)
        op = {"op": "contingency", "cases": cases, "raise_errors": rng.random() < 0.2,
              "write_to_net": rng.random() < 0.8,
              "fail_at": sorted(rng.sample(range(1, 12), rng.choice([0, 0, 1, 2]))),
              "pf": rng.choice([{}, {}, {"max_iteration": 6}, {"algorithm": "iwamoto_nr"}, {"numba": False}]),
              "perm_seed": rng.randrange(1 << 30),
              # separate options for the N-0 run and the N-1 runs, the evaluation function, the recycle option
              # as run_timeseries passes it on (must be neutralised), the form of the case index
              "pf_n0": rng.choice([None, None, None, {"trafo_model": "pi"}, {"tolerance_mva": 1e-6}]),
              "pf_n1": rng.choice([None, None, None, {"trafo_model": "pi"}, {"tolerance_mva": 1e-6},
                                   {"trafo_loading": "power"}]),
              "eval": rng.choice(["runpp", "runpp", "runpp", "rundcpp"]),
              "recycle_kw": rng.random() < 0.15,
              "index_form": rng.choice(["list", "list", "array", "pd_index", "tuple"])}
        if rng.random() < 0.15:
            op["fault"] = c08.gen_fault(rng, ["InjectedFault", "KeyboardInterrupt"])
        ol.append(op)
        if rng.random() < 0.4:
            ol.append(ops.gen_set(rng))
    return {"cfg": cfg, "ops": ol}


def simplify_op(op):
    out = []
    if op.get("op") == "contingency":
        for k in ("fault",):
            if op.get(k):
                o = copy.deepcopy(op); o.pop(k); out.append(o)
        if op.get("fail_at"):
            o = copy.deepcopy(op); o["fail_at"] = []; out.append(o)
        if op.get("pf"):
            o = copy.deepcopy(op); o["pf"] = {}; out.append(o)
        if op.get("raise_errors"):
            o = copy.deepcopy(op); o["raise_errors"] = False; out.append(o)
        for et in ("trafo3w", "trafo", "line"):
            ks = op["cases"]["spec"].get(et) or []
            if len(ks) > 0 and sum(len(v) for v in op["cases"]["spec"].values()) > 1:
                for j in range(len(ks)):
                    o = copy.deepcopy(op)
                    del o["cases"]["spec"][et][j]
                    out.append(o)
    if op.get("op") == "scale_loads" and op["f"] != 1.0:
        out.append({"op": "scale_loads", "f": 1.0})
    return out


# ---------------------------------------------------------------------------------------------
BRANCHES = ("line", "trafo", "trafo3w")


def build_case_dict(net, cases):
    """ordered dict element -> {"index": [...]} in the seeded element order and index order"""
    raw = ops.contingency_cases(net, cases["spec"])
    out = {}
    for et in cases["order"]:
        if et in raw:
            out[et] = raw[et]
    return out


class Recorder:
    """recording wrapper around the real runpp; keeps __name__ == 'runpp'"""

    def __init__(self, net, ctx, fail_at=(), fn="runpp"):
        import pandapower as pp
        self.pp = pp
        self.fn = pp.rundcpp if fn == "rundcpp" else pp.runpp
        self.ctx = ctx
        self.fail_at = set(fail_at)
        self.base = {et: net[et].in_service.values.copy() for et in BRANCHES}
        self.calls = []
        self.n = 0
        self.__name__ = "runpp"

    def __call__(self, net, **kw):
        from pandapower.auxiliary import LoadflowNotConverged
        self.n += 1
        seq = self.ctx.next_seq()
        case = None
        for et in BRANCHES:
            cur = net[et].in_service.values
            if len(cur) == len(self.base[et]):
                d = np.flatnonzero(cur != self.base[et])
                if len(d):
                    case = (et, int(net[et].index[d[0]]))
        rec = {"seq": seq, "n": self.n, "case": case, "raised": None, "res": None, "kw": sorted(kw),
               "kwv": {k_: v_ for k_, v_ in kw.items() if k_ != "raise_errors"}}
        self.calls.append(rec)
        if self.n in self.fail_at:
            rec["raised"] = "callback-fail"
            self.ctx.fault_fired("callback-fail")
            raise LoadflowNotConverged(f"ppsim: planned failure of evaluation #{self.n}")
        kw.pop("raise_errors", None)
        try:
            self.fn(net, **kw)
        except Exception as e:
            rec["raised"] = type(e).__name__
            raise
        rec["res"] = {"bus": net.res_bus.vm_pu.values.copy()}
        for et in BRANCHES:
            if len(net[et]):
                rec["res"][et] = net[f"res_{et}"].loading_percent.values.copy()
        return None


def extremes_model(net, rec_calls, case_list):
    """recompute min/max/cause/causes_overloading from the recorded history"""
    n1 = [c for c in rec_calls if c["case"] is not None]
    n0 = [c for c in rec_calls if c["case"] is None]
    exp = {}
    tables = ["bus"] + [et for et in BRANCHES if len(net[et])]
    limits = {}
    for et in BRANCHES:
        if len(net[et]):
            col = "max_loading_percent_nminus1" if "max_loading_percent_nminus1" in net[et].columns \
                else "max_loading_percent"
            limits[et] = net[et][col].values.astype(float) if col in net[et].columns else \
                np.full(len(net[et]), np.nan)
    for t in tables:
        idx = net[t].index.values
        n = len(idx)
        var = "vm_pu" if t == "bus" else "loading_percent"
        mx = np.full(n, np.nan)
        mn = np.full(n, np.nan)
        argmax = [[] for _ in range(n)]
        insvc = net[t].in_service.values.astype(bool)
        for c in n1:
            if c["res"] is None or t not in c["res"]:
                continue
            v = c["res"][t]
            for j in range(n):
                if not insvc[j] or np.isnan(v[j]):
                    continue
                if t != "bus" and c["case"] == (t, int(idx[j])):
                    continue                    # an element's own outage is excluded
                if np.isnan(mx[j]) or v[j] > mx[j]:
                    mx[j] = v[j]
                if np.isnan(mn[j]) or v[j] < mn[j]:
                    mn[j] = v[j]
        exp[t] = {"max": mx, "min": mn, "var": var}
    # causes
    for t in tables:
        if t == "bus":
            continue
        idx = net[t].index.values
        ok_causes = []
        for j in range(len(idx)):
            s = set()
            m = exp[t]["max"][j]
            if not np.isnan(m):
                for c in n1:
                    if c["res"] is None or t not in c["res"] or c["case"] == (t, int(idx[j])):
                        continue
                    v = c["res"][t][j]
                    if not np.isnan(v) and abs(v - m) <= 1e-6 + 1e-6 * abs(m):
                        s.add(c["case"])
            ok_causes.append(s)
        exp[t]["ok_causes"] = ok_causes
    over = {}
    for c in n1:
        o = False
        if c["res"] is not None:
            for et in limits:
                v = c["res"].get(et)
                if v is not None:
                    with np.errstate(invalid="ignore"):
                        o = o or bool(np.any(v > limits[et]))
        over[c["case"]] = over.get(c["case"], False) or o
    return exp, over, n0


def check_result(net, res, rec, case_dict, op, i, ctx, own_first, failed_present, label=""):
    """compare the returned dict (and result tables) with the model"""
    exp, over, n0 = extremes_model(net, rec.calls, case_dict)
    tag = f"own-outage-first:{'yes' if own_first else 'no'}|failed-case:{'yes' if failed_present else 'no'}"
    sigs = []

    def bad(key, detail):
        sig = f"C14|{key}|{tag}"
        if sig not in sigs:
            sigs.append(sig)
            ctx.violation(sig, f"op{i}{label}: {detail}", op=i)

    for t, e in exp.items():
        if t not in res:
            bad(f"missing:{t}", f"returned dict has no entry for {t}")
            continue
        var = e["var"]
        for mm in ("max", "min"):
            key = f"{mm}_{var}"
            got = res[t].get(key)
            if got is None:
                if not np.all(np.isnan(e[mm])):
                    bad(key, f"{t}.{key} missing from the returned dict")
                continue
            d = oracles.compare_arrays(np.asarray(got, dtype=float), e[mm], 1e-6, 1e-6)
            if d:
                pos = int(d[1].split("pos ")[1].split(":")[0]) if "pos " in d[1] else 0
                bad(f"{mm}_{var}:{t}", f"{t}.{key}: reported vs recomputed from the {len(rec.calls)} recorded "
                                        f"evaluations: {d[0]} {d[1]} (element index {net[t].index[pos]})")
        if t != "bus":
            ce, ci = res[t].get("cause_element"), res[t].get("cause_index")
            for j, okset in enumerate(e["ok_causes"]):
                if not okset:
                    continue
                got = (ce[j], int(ci[j])) if ce is not None and ce[j] is not None else None
                if got not in okset:
                    bad(f"cause:{t}", f"{t} {net[t].index[j]}: cause reported as {got}, but the maximum "
                                      f"{e['max'][j]:.6g} is produced by {sorted(okset)}")
                    break
            co = res[t].get("causes_overloading")
            if co is not None:
                for j, ix in enumerate(net[t].index.values):
                    want = bool(over.get((t, int(ix)), False))
                    if bool(co[j]) != want:
                        bad(f"causes_overloading:{t}", f"{t} {ix}: causes_overloading={bool(co[j])}, recorded case "
                                                       f"overloads some branch: {want}")
                        break
    if any(over.values()):
        ctx.probe("some_branch_overloaded")
    return sigs


def execute(ep, ctx):
    import pandapower as pp
    net = None
    for i, op in enumerate(ep["ops"]):
        k = op["op"]
        if k == "template":
            net = ops.apply_template(op)
            ctx.event("template", op["name"])
            continue
        if net is None:
            continue
        ctx.sim["ops"] += 1
        if k == "scale_loads":
            net.load["scaling"] = float(op["f"])
            ctx.event("scale", op["f"])
        elif k == "limits":
            for et in BRANCHES:
                if len(net[et]):
                    net[et]["max_loading_percent"] = float(op["v"])
                    if op.get("nminus1"):
                        net[et]["max_loading_percent_nminus1"] = float(op["v"]) * 1.2
            ctx.event("limits", op["v"])
        elif k in ("create", "set", "toggle"):
            st, _ = ops.apply_basic(net, op)
            ctx.event(k, st)
        elif k == "contingency":
            _exec_contingency(net, op, i, ctx)


def _first_case(case_dict):
    for et, v in case_dict.items():
        for ix in v["index"]:
            return (et, int(ix))
    return None


def _exec_contingency(net, op, i, ctx):
    from pandapower.contingency import run_contingency
    case_dict = build_case_dict(net, op["cases"])
    n_cases = sum(len(v["index"]) for v in case_dict.values())
    if n_cases == 0:
        ctx.event("contingency", "no-cases")
        return
    ctx.sim["n1_cases"] += n_cases
    fc = _first_case(case_dict)
    own_first = fc is not None and bool(net[fc[0]].at[fc[1], "in_service"])
    if own_first:
        ctx.probe("own_outage_first")
    # precondition of run_contingency: every branch table carries a loading limit (templates without the column
    # and elements created afterwards get the documented default; otherwise every case fails with a KeyError)
    for et in BRANCHES:
        if len(net[et]):
            if "max_loading_percent" not in net[et].columns:
                net[et]["max_loading_percent"] = 100.
            elif net[et]["max_loading_percent"].isna().any():
                net[et]["max_loading_percent"] = net[et]["max_loading_percent"].fillna(100.)
    snap = oracles.snapshot(net)
    ev = op.get("eval", "runpp")
    rec = Recorder(net, ctx, op.get("fail_at") or [], fn=ev)
    for _ in op.get("fail_at") or []:
        ctx.fault_configured("callback-fail")
    kw = dict(op["pf"])
    if ev == "rundcpp":
        kw = {k_: v_ for k_, v_ in kw.items() if k_ in ("numba",)}
    if op["raise_errors"]:
        kw["raise_errors"] = True
    if op.get("recycle_kw"):
        kw["recycle"] = {"bus_pq": True, "trafo": False, "gen": False}
        ctx.probe("recycle_option_passed")
    opt = {}
    pf_n0 = op.get("pf_n0") if ev == "runpp" else None
    pf_n1 = op.get("pf_n1") if ev == "runpp" else None
    if pf_n0 is not None or pf_n1 is not None:
        # (pandapower falls back to net.user_pf_options for a dict that is not given: both are given)
        opt = {"pf_options": dict(pf_n0 or {}), "pf_options_nminus1": dict(pf_n1 or {})}
        ctx.probe("separate_n0_n1_options")
    form = op.get("index_form", "list")

    def shaped(cd):
        out = copy.deepcopy(cd)
        for et_, v_ in out.items():
            ix = v_["index"]
            v_["index"] = np.array(ix, dtype=np.int64) if form == "array" else pd.Index(ix) if form == "pd_index" \
                else tuple(ix) if form == "tuple" else list(ix)
        return out
    call = lambda: run_contingency(net, shaped(case_dict), write_to_net=op["write_to_net"],
                                   contingency_evaluation_function=rec, **opt, **kw)
    fired = None
    if op.get("fault"):
        f = op["fault"]
        ctx.fault_configured(f"raise@{f['gran']}")
        dry = copy.deepcopy(net)
        drec = Recorder(dry, _NullCtx(), op.get("fail_at") or [], fn=ev)
        counter = tracer.Tracer(gran=f["gran"])
        counter.run(lambda: run_contingency(dry, shaped(case_dict), write_to_net=op["write_to_net"],
                                            contingency_evaluation_function=drec, **opt, **kw))
        index = tracer.resolve_plan(counter, f)
        if index is None:
            res, exc = c08._plain_call(call)
        else:
            tr = tracer.Tracer(gran=f["gran"], index=index, exc=tracer.EXC_TYPES[f["exc"]]("ppsim fault"),
                               record_sites=False)
            res, exc = tr.run(call)
            fired = tr.fired
            if fired:
                ctx.fault_fired(f"raise@{f['gran']}")
                ctx.sites.add(f"{fired['file']}:{fired['func']}")
                if "run_contingency" in fired["stack"]:
                    ctx.probe("injected_in_loop")
    else:
        res, exc = c08._plain_call(call)
    failed = [c for c in rec.calls if c["raised"]]
    for c in failed:
        ctx.probe("case_failed_callback" if c["raised"] == "callback-fail" else "case_failed_natural")
    outcome = "ok" if exc is None else type(exc).__name__
    sigs = []
    # in_service (and every other input value) restored -- also when the call raises
    diffs, _ = oracles.diff_snapshot(snap, net)
    for d in diffs[:2]:
        sig = f"C14|restore:{d['table']}.{d.get('col') or d['kind']}|outcome:{'raised' if exc else 'returned'}"
        sigs.append(sig)
        ctx.violation(sig, f"op{i}: run_contingency -> {outcome}: net.{d['table']} {d['kind']} {d.get('col') or ''} "
                           f"{d['detail']}", op=i)
    if diffs:
        oracles.restore_snapshot(snap, net)
    if exc is not None:
        if op["raise_errors"] and failed:
            ctx.probe("raise_errors_propagated")
            ctx.conclusive += 1
        elif fired is not None:
            ctx.conclusive += 1
        else:
            n0_failed = any(c["case"] is None and c["raised"] for c in rec.calls)
            if not n0_failed and not isinstance(exc, (KeyError,)):
                sig = f"C14|unexpected-exception:{type(exc).__name__}"
                sigs.append(sig)
                ctx.violation(sig, f"op{i}: run_contingency raised {outcome}: {exc!s:.200} although no evaluation "
                                   f"failed with raise_errors", op=i)
            ctx.conclusive += 1
        ctx.features.append(f"{outcome}|{n_cases}|{own_first}|{len(failed)}")
        ctx.event("contingency", outcome, n_cases, [c["case"] for c in rec.calls], sigs)
        return
    if fired is not None:
        # the injected exception was swallowed by run_contingency's own handler (raise_errors=False): the case in
        # which it fired counts as failed, although its evaluation at the seam returned - the extremes are then
        # legitimately incomplete; only the restore oracle above applies
        ctx.probe("injected_fault_swallowed_as_failed_case")
        ctx.conclusive += 1
        ctx.features.append(f"swallowed|{n_cases}|{own_first}|{len(failed)}")
        ctx.event("contingency", "swallowed", n_cases, [c["case"] for c in rec.calls], sigs)
        return
    failed_present = bool(failed)
    sigs += check_result(net, res, rec, case_dict, op, i, ctx, own_first, failed_present)
    import pandapower as pp_
    run_fn = pp_.rundcpp if ev == "rundcpp" else pp_.runpp
    plain_kw = {k_: v_ for k_, v_ in kw.items() if k_ not in ("raise_errors", "recycle")}
    kw_n0 = dict(pf_n0 or {}, **plain_kw)
    kw_n1 = dict(pf_n1 or {}, **plain_kw)
    # option routing: every evaluation received exactly the options of its kind (recycle switched off)
    for c in rec.calls:
        want_kw = kw_n0 if c["case"] is None else kw_n1
        got_kw = {k_: v_ for k_, v_ in c["kwv"].items() if k_ != "recycle"}
        if got_kw != want_kw or c["kwv"].get("recycle", False) is not False:
            sig = f"C14|options:{'N-0' if c['case'] is None else 'N-1'} evaluation received other options"
            sigs.append(sig)
            ctx.violation(sig, f"op{i}: evaluation #{c['n']} (case {c['case']}) received {c['kwv']}, expected "
                               f"{want_kw} with recycle off", op=i)
            break
    # the extremes are built from evaluations of the true N-1 states: two seeded cases are re-evaluated on a
    # scrubbed copy with that element out of service and compared with what the evaluation seam recorded
    import random as _r
    ok_cases = [c for c in rec.calls if c["case"] is not None and c["res"] is not None]
    for c in _r.Random(op["perm_seed"]).sample(ok_cases, min(2, len(ok_cases))):
        et_, ix_ = c["case"]
        probe = oracles.scrubbed_copy(net)
        probe[et_].at[ix_, "in_service"] = False
        _, pe = c08._plain_call(lambda: run_fn(probe, **kw_n1))
        if pe is not None:
            continue
        ctx.probe("n1_case_recomputed")
        for t_ in c["res"]:
            want_v = probe.res_bus.vm_pu.values if t_ == "bus" else probe[f"res_{t_}"].loading_percent.values
            d_ = oracles.compare_arrays(np.asarray(c["res"][t_], dtype=float), want_v, 5e-5, 5e-5)
            if d_:
                sig = f"C14|N-1 evaluation differs from a fresh power flow of that outage:{t_}"
                sigs.append(sig)
                ctx.violation(sig, f"op{i}: case {c['case']}: {t_} values seen by the analysis differ from a fresh "
                                   f"{ev} with that element out of service: {d_[0]} {d_[1]}", op=i)
                break
    # N-0 equals a plain power flow on a scrubbed copy
    ref = oracles.scrubbed_copy(net)
    _, e0 = c08._plain_call(lambda: run_fn(ref, **kw_n0))
    n0_ok = [c for c in rec.calls if c["case"] is None and c["res"] is not None]
    if e0 is None and n0_ok:
        for t in ["bus"] + [et for et in BRANCHES if len(net[et])]:
            var = "vm_pu" if t == "bus" else "loading_percent"
            got = res[t].get(var)
            want = ref[f"res_{t}"][var].values
            d = oracles.compare_arrays(np.asarray(got, dtype=float), want, 1e-6, 1e-6) if got is not None else \
                ("missing", "")
            if d:
                sig = f"C14|N-0:{t}.{var}|own-outage-first:{'yes' if own_first else 'no'}|failed-case:" \
                      f"{'yes' if failed_present else 'no'}"
                sigs.append(sig)
                ctx.violation(sig, f"op{i}: N-0 {t}.{var} differs from a plain power flow: {d[0]} {d[1]}", op=i)
    # result tables equal the returned dict
    if op["write_to_net"]:
        for t, vals in res.items():
            for key, val in vals.items():
                if key == "index" or key not in net[f"res_{t}"].columns:
                    continue
                col = net[f"res_{t}"].loc[vals["index"], key].values
                if key in ("cause_element",):
                    same = all((a == b) or (a is None and (b is None or (isinstance(b, float) and np.isnan(b))))
                               for a, b in zip(val, col))
                    d = None if same else ("values", "cause_element")
                elif key in ("cause_index", "causes_overloading"):
                    continue
                else:
                    d = oracles.compare_arrays(np.asarray(col, dtype=float), np.asarray(val, dtype=float), 1e-9, 1e-9)
                if d:
                    sig = f"C14|write_to_net:{t}.{key}"
                    sigs.append(sig)
                    ctx.violation(sig, f"op{i}: net.res_{t}.{key} differs from the returned dict: {d}", op=i)
    # metamorphic: the same case set in a second seeded order gives the same extremes
    import random
    rr = random.Random(op["perm_seed"])
    flat = [(et, ix) for et, v in case_dict.items() for ix in v["index"]]
    rr.shuffle(flat)
    cd2 = {}
    for et, ix in flat:
        cd2.setdefault(et, {"index": []})["index"].append(ix)
    net2 = oracles.scrubbed_copy(net)
    rec2 = Recorder(net2, _NullCtx(), [], fn=ev)
    res2, exc2 = c08._plain_call(lambda: run_contingency(net2, cd2, write_to_net=False,
                                                         contingency_evaluation_function=rec2, **opt, **plain_kw))
    if exc2 is None and not failed_present:
        ctx.probe("second_order_checked")
        for t in res:
            var = "vm_pu" if t == "bus" else "loading_percent"
            for mm in ("max", "min"):
                key = f"{mm}_{var}"
                if key in res[t] and key in res2.get(t, {}):
                    d = oracles.compare_arrays(np.asarray(res[t][key], dtype=float),
                                               np.asarray(res2[t][key], dtype=float), 1e-6, 1e-6)
                    if d:
                        sig = f"C14|order-dependent:{key}:{t}"
                        sigs.append(sig)
                        ctx.violation(sig, f"op{i}: {t}.{key} differs between case order {list(case_dict.items())} and "
                                           f"{list(cd2.items())}: {d[1]}", op=i)
        fc2 = _first_case(cd2)
        sigs += [s for s in check_result(net2, res2, rec2, cd2, op, i, ctx, True, False, label=" (second order)")]
    ctx.conclusive += 1
    ctx.features.append(f"{ctx.ep['cfg']['template']}|{ {k: len(v['index']) for k, v in case_dict.items()} }|"
                        f"{own_first}|{[c['n'] for c in failed]}|{op['raise_errors']}|{op['write_to_net']}")
    ctx.event("contingency", outcome, n_cases, [c["case"] for c in rec.calls],
              [oracles.sig_round(float(x), 7) for x in np.nan_to_num(np.asarray(res["bus"].get("max_vm_pu", []),
                                                                                  dtype=float))[:4]], sigs)


class _NullCtx:
    def next_seq(self):
        return 0

    def fault_fired(self, k):
        pass
