"""C22 -- network edits never leave dangling references.

Seeded histories of creation and toolbox edits on nets that carry every reference kind; the
RefIntegrity invariant is checked after every op that returns.  No fault dimension (the property
speaks of edits that complete): an op that raises is rolled back and recorded as rejected.
"""
import copy

import numpy as np
import pandas as pd

from .. import nets, ops, oracles
from . import c08

PROPERTY = "C22"
BUDGET = {"quick": 700, "thorough": 30000}
WALL_CAP = {"quick": 150, "thorough": 1500}
RULE = ("Episodes = template net (example_multivoltage / feeder variants / case9) decorated with one reference of "
        "every kind (switches b/l/t/t3, measurements, poly/pwl costs, groups with and without reference column, "
        "controllers, tap characteristic table, result tables of a power flow) + 10-35 seeded creation and toolbox "
        "edits; the referential-integrity invariant is evaluated after every op that returns. Non-trivial = an edit "
        "returned and the invariant was evaluated on a net that still holds references; distinct = distinct "
        "(operation family, set of reference kinds present, template)."
        ' All toolbox edit functions incl. drop_elements_simple, drop_*_at_*, drop_duplicated_measurements, drop_inner_branches, merge_parallel_line, merge_same_bus_generation_plants, repl_to_line, drop_group_and_elements; option variants (fuse_bus_measurements, keep_everything_else, include_switch_buses); overlapping reindex lookups; creation calls with missing references (must be refused); short-circuit result tables present; the state left behind by a refused operation is checked too.')
COMPONENTS = {"real": ["pandapower create functions and toolbox (drop_*, fuse_buses, select_subnet, merge_nets, "
                       "reindex_*, create_continuous_*_index, replace_*)", "runpp for result tables"],
              "stub": ["RefIntegrity (list of reference columns and what they must point to)"]}
ASSUMPTIONS = ["an edit that raises is a rejected edit: the net is rolled back to the pre-op deep copy",
               "group members given by a reference column refer to values of that column",
               "controller targets are read from the controller objects' element / element_index attributes"]
REACH_PROBES = ["op_rejected_and_rolled_back", "t3_switch_present", "group_with_reference_column_present",
                "controller_present", "result_tables_present", "merge_nets_done", "select_subnet_done"]

TEMPLATES = [("multivoltage", 5), ("feeder_all", 3), ("feeder_t3w", 2), ("case9", 1), ("cigre_mv", 1)]
OPS_W = [("drop_buses", 3), ("drop_lines", 3), ("drop_trafos", 3), ("drop_elements", 4), ("drop_elements_at_buses", 2),
         ("drop_inactive_elements", 2), ("drop_out_of_service_elements", 1), ("fuse_buses", 3), ("select_subnet", 1),
         ("merge_nets", 1), ("reindex_buses", 2), ("reindex_elements", 6), ("create_continuous_bus_index", 1),
         ("create_continuous_elements_index", 2), ("replace", 4), ("create", 4), ("toggle", 3), ("runpp", 2),
         ("decorate", 3), ("drop_elements_simple", 2), ("drop_switches_at_buses", 1),
         ("drop_measurements_at_elements", 1), ("drop_controllers", 1), ("drop_duplicated_measurements", 1),
         ("drop_inner_branches", 2), ("merge_parallel_line", 1), ("merge_same_bus_generation_plants", 1),
         ("repl_to_line", 1), ("create_dangling", 3), ("drop_group_and_elements", 1), ("calc_sc", 1)]
DANGLING = ["load", "loads", "gen", "sgens", "shunt", "storage", "ward", "xward", "line", "lines", "impedance", "dcline",
            "trafo", "trafo3w", "switch_b", "switch_l", "switch_t", "switch_t3", "switches", "meas_bus", "meas_line",
            "meas_trafo3w", "poly_cost", "pwl_cost", "poly_costs", "pwl_costs", "group", "group_refcol", "group_attach",
            "group_attach_new_row"]
SIMPLE_DROP_ET = ["load", "sgen", "gen", "shunt", "impedance", "storage", "ward", "xward", "measurement", "poly_cost"]
REINDEX_ET = ["line", "trafo", "trafo3w", "load", "sgen", "gen", "ext_grid", "switch", "shunt", "impedance",
              "measurement", "poly_cost", "storage", "xward", "ward", "group"]
DROP_ET = ["load", "sgen", "gen", "shunt", "impedance", "switch", "measurement", "storage", "xward", "ward",
           "ext_grid", "poly_cost", "trafo3w", "line", "trafo"]
REPLACE = ["ext_grid_by_gen", "gen_by_ext_grid", "gen_by_sgen", "sgen_by_gen", "line_by_impedance",
           "impedance_by_line", "ward_by_internal", "xward_by_ward", "xward_by_internal", "pq_elmtype",
           "zero_branches_with_switches"]


def warm():
    import pandapower as pp
    nets.import_all_pandapower()
    nets.build_templates([t for t, _ in TEMPLATES])
    net = decorate(nets.get("multivoltage"), 0)
    pp.runpp(net)


def generate(rng, idx, tier):
    cfg = {"template": c08._wchoice(rng, TEMPLATES)}
    ol = [{"op": "template", "name": cfg["template"]}, {"op": "decorate", "k": rng.randrange(1000)}]
    if rng.random() < 0.6:
        ol.append({"op": "runpp"})
    for _ in range(rng.randint(8, 30)):
        f = c08._wchoice(rng, OPS_W)
        op = {"op": f, "a": rng.randrange(1000), "b": rng.randrange(1000), "c": rng.randrange(1000)}
        if f == "reindex_elements":
            op.update(et=rng.choice(REINDEX_ET), shift=rng.choice([1, 7, 100]), partial=rng.random() < 0.4,
                      mode=rng.choice(["above", "above", "shift_all", "swap", "rotate"]))
        elif f == "drop_elements":
            op.update(et=rng.choice(DROP_ET))
        elif f == "drop_elements_simple":
            op.update(et=rng.choice(SIMPLE_DROP_ET))
        elif f == "create_dangling":
            op.update(what=rng.choice(DANGLING), off=rng.choice([1, 5, 1000]))
        elif f in ("drop_measurements_at_elements", "drop_controllers"):
            op.update(et=rng.choice(["line", "trafo", "trafo3w", "bus", "load", "sgen", "gen"]), all=rng.random() < 0.3,
                      at_buses=rng.random() < 0.4)
        elif f == "drop_trafos":
            op.update(table=rng.choice(["trafo", "trafo", "trafo3w"]))
        elif f == "replace":
            op.update(what=rng.choice(REPLACE))
        elif f == "create":
            op = ops.gen_create(rng, ["load", "sgen", "gen", "line", "switch_b", "switch_l", "switch_t", "switch_t3",
                                      "shunt", "bus", "ward", "xward", "impedance", "storage"])
        elif f == "toggle":
            op = ops.gen_toggle(rng)
        elif f == "reindex_buses":
            op.update(shift=rng.choice([1, 50, 1000]), partial=rng.random() < 0.5)
        elif f == "fuse_buses":
            op.update(drop=rng.random() < 0.8, fuse_meas=rng.random() < 0.7)
        elif f == "merge_nets":
            op.update(other=rng.choice(["feeder", "case9", "four_bus"]))
        elif f == "select_subnet":
            op.update(switch_buses=rng.random() < 0.3, keep_else=rng.random() < 0.3)
        elif f == "decorate":
            op.update(k=rng.randrange(1000))
        ol.append(op)
    return {"cfg": cfg, "ops": ol}


def simplify_op(op):
    if op.get("op") == "template" and op["name"] != "feeder_all":
        return [{"op": "template", "name": "feeder_all"}, {"op": "template", "name": "feeder_t3w"}]
    return []


# ---------------------------------------------------------------------------------------------
def decorate(net, k):
    """add one reference of every kind the net can carry"""
    import pandapower as pp
    from pandapower.control import ConstControl, DiscreteTapControl
    pk = lambda tab, j=0: ops.pick(net[tab].index.tolist(), k + j) if tab in net and len(net[tab]) else None
    b = pk("bus")
    if pk("line") is not None:
        l = pk("line")
        pp.create_measurement(net, "p", "line", 1.0, 0.1, l, side=int(net.line.at[l, "from_bus"]))
        if not ((net.switch.et == "l") & (net.switch.element == l)).any():
            pp.create_switch(net, int(net.line.at[l, "to_bus"]), l, "l", closed=True)
    if pk("trafo") is not None:
        t = pk("trafo")
        pp.create_measurement(net, "q", "trafo", 0.1, 0.1, t, side="hv")
        if not ((net.switch.et == "t") & (net.switch.element == t)).any():
            pp.create_switch(net, int(net.trafo.at[t, "hv_bus"]), t, "t", closed=True)
        if not any(getattr(o, "element", None) == "trafo" for o in net.controller.object.values) and \
                not pd.isna(net.trafo.at[t, "tap_pos"]) and net.trafo.at[t, "tap_side"] in ("hv", "lv"):
            DiscreteTapControl(net, int(t), 0.98, 1.02)
    if pk("trafo3w") is not None:
        t3 = pk("trafo3w")
        pp.create_measurement(net, "p", "trafo3w", 1.0, 0.1, t3, side="mv")
        if not ((net.switch.et == "t3") & (net.switch.element == t3)).any():
            pp.create_switch(net, int(net.trafo3w.at[t3, "mv_bus"]), t3, "t3", closed=True)
    if b is not None:
        pp.create_measurement(net, "v", "bus", 1.0, 0.01, b)
        b2 = ops._same_level_bus(net, b, k)
        if b2 is not None and not ((net.switch.et == "b") & (net.switch.bus == b) & (net.switch.element == b2)).any():
            pp.create_switch(net, b, b2, "b", closed=False)
    for et in ("gen", "sgen", "ext_grid", "load", "storage"):
        e = pk(et, 1)
        if e is not None and not ((net.poly_cost.et == et) & (net.poly_cost.element == e)).any() and \
                not ((net.pwl_cost.et == et) & (net.pwl_cost.element == e)).any():
            pp.create_poly_cost(net, e, et, cp1_eur_per_mw=1.0 + (k % 5))
    e = pk("gen", 2)
    if e is not None and not ((net.pwl_cost.et == "gen") & (net.pwl_cost.element == e)).any() and \
            not ((net.poly_cost.et == "gen") & (net.poly_cost.element == e)).any():
        pp.create_pwl_cost(net, e, "gen", [[0, 10, 1.0], [10, 100, 2.0]])
    for et in ("sgen", "gen", "storage"):
        e = pk(et, 5)
        if e is not None and not any(getattr(o, "element", None) == et for o in net.controller.object.values):
            ConstControl(net, et, "p_mw", element_index=e)
    if pk("load") is not None:
        ld = pk("load", 3)
        if not any(getattr(o, "element", None) == "load" for o in net.controller.object.values):
            ConstControl(net, "load", "p_mw", element_index=ld)
        # groups: by index and by reference column
        members_t, members_i = [], []
        for et in ("load", "line", "trafo3w", "sgen", "bus"):
            x = pk(et, 4)
            if x is not None:
                members_t.append(et)
                members_i.append([x])
        if members_t:
            pp.create_group(net, members_t, members_i, name=f"g{k}")
    # a group that lists its members by their (unique) names, over several element types
    rt, rm = [], []
    for j, et in enumerate(("load", "line", "trafo", "trafo3w", "sgen", "bus", "gen")):
        if et not in net or not len(net[et]) or (k + j) % 3 == 0:
            continue
        tab = net[et]
        if "name" not in tab.columns or tab["name"].isna().any():
            # only missing names are filled in (existing ones may already be referenced)
            names = tab["name"].astype(object) if "name" in tab.columns else pd.Series(None, index=tab.index, dtype=object)
            for x in tab.index[names.isna().values]:
                names.at[x] = f"{et}_{x}"
            net[et]["name"] = names
        if net[et]["name"].is_unique:
            sel = _pick_many(net, et, k + j, 2)
            rt.append(et)
            rm.append([net[et].at[x, "name"] for x in sel])
    if rt:
        pp.create_group(net, rt, rm, name=f"gr{k}", reference_columns="name")
    return net


REF_BRANCH = {"b": "bus", "l": "line", "t": "trafo", "t3": "trafo3w"}


def ref_integrity(net):
    """-> list of (reference kind, referenced table, detail)"""
    from pandapower.toolbox import element_bus_tuples
    out = []
    bus_idx = set(net.bus.index.tolist())
    for et, col in element_bus_tuples():
        if et in net and len(net[et]) and col in net[et].columns:
            vals = net[et][col].values
            bad = [v for v in vals if (v not in bus_idx)]
            if bad:
                out.append((f"{et}.{col}", "bus", f"{et}.{col} refers to missing buses {bad[:4]}"))
    if len(net.switch):
        for code, tab in REF_BRANCH.items():
            sw = net.switch[net.switch.et == code]
            idx = set(net[tab].index.tolist())
            bad = [int(e) for e in sw.element.values if e not in idx]
            if bad:
                out.append((f"switch[{code}].element", tab, f"{code}-switches refer to missing {tab} {bad[:4]}"))
    if "measurement" in net and len(net.measurement):
        for tab in ("bus", "line", "trafo", "trafo3w"):
            m = net.measurement[net.measurement.element_type == tab]
            idx = set(net[tab].index.tolist())
            bad = [int(e) for e in m.element.values if e not in idx]
            if bad:
                out.append(("measurement.element", tab, f"measurements refer to missing {tab} {bad[:4]}"))
        sides = [int(x) for x in net.measurement.side.values
                 if isinstance(x, (int, np.integer, float)) and not isinstance(x, bool) and not pd.isna(x)]
        bad = [x for x in sides if x not in bus_idx]
        if bad:
            out.append(("measurement.side", "bus", f"measurement sides given as bus index refer to missing buses {bad[:4]}"))
    for cost in ("poly_cost", "pwl_cost"):
        if cost in net and len(net[cost]):
            for tab in sorted(set(net[cost].et.values)):
                idx = set(net[tab].index.tolist()) if tab in net else set()
                bad = [int(e) for e in net[cost].element[net[cost].et == tab].values if e not in idx]
                if bad:
                    out.append((f"{cost}.element", tab, f"{cost} rows refer to missing {tab} {bad[:4]}"))
    if "group" in net and len(net.group):
        for _, row in net.group.iterrows():
            tab, members, rc = row["element_type"], row["element_index"], row["reference_column"]
            if tab not in net:
                out.append(("group.element_type", str(tab), f"group member table {tab} does not exist"))
                continue
            if rc is None or (isinstance(rc, float) and np.isnan(rc)):
                pool = set(net[tab].index.tolist())
                kind = "group.element_index"
            else:
                pool = set(net[tab][rc].tolist()) if rc in net[tab].columns else set()
                kind = "group.element_index[reference_column]"
            bad = [m for m in (members if isinstance(members, (list, tuple, np.ndarray)) else [members])
                   if m not in pool]
            if bad:
                out.append((kind, tab, f"group '{row.get('name')}' lists missing {tab} members {bad[:4]}"))
    if "controller" in net and len(net.controller):
        for ci, obj in zip(net.controller.index, net.controller.object.values):
            tab = getattr(obj, "element", None)
            ei = getattr(obj, "element_index", None)
            if isinstance(tab, str) and tab in net and ei is not None:
                idx = set(net[tab].index.tolist())
                bad = [int(e) for e in np.atleast_1d(ei) if e not in idx]
                if bad:
                    out.append(("controller.element_index", tab,
                                f"controller {ci} ({type(obj).__name__}) targets missing {tab} {bad[:4]}"))
    if "trafo_characteristic_table" in net and isinstance(net["trafo_characteristic_table"], pd.DataFrame) and \
            "id_characteristic" in net["trafo_characteristic_table"]:
        ids = set(net["trafo_characteristic_table"]["id_characteristic"].dropna().tolist())
        for tab in ("trafo", "trafo3w"):
            if "id_characteristic_table" in net[tab].columns:
                bad = [int(v) for v in net[tab]["id_characteristic_table"].dropna().tolist() if v not in ids]
                if bad:
                    out.append((f"{tab}.id_characteristic_table", "trafo_characteristic_table",
                                f"{tab} rows refer to missing characteristic ids {bad[:4]}"))
    for key in list(net.keys()):
        if key.startswith("res_") and isinstance(net[key], pd.DataFrame) and len(net[key]):
            tab = key[4:]
            for suf in ("_3ph", "_sc", "_est"):
                if tab.endswith(suf):
                    tab = tab[: -len(suf)]
            if tab in net and isinstance(net[tab], pd.DataFrame):
                extra = net[key].index.difference(net[tab].index)
                if len(extra):
                    out.append(("result index", tab, f"{key} has rows {extra.tolist()[:4]} that are not in {tab}"))
    return out


def kinds_present(net):
    s = []
    if len(net.switch):
        s += sorted("sw-" + c for c in set(net.switch.et.values))
    if len(net.measurement):
        s.append("meas")
    if len(net.poly_cost) or len(net.pwl_cost):
        s.append("cost")
    if len(net.group):
        s.append("group" + ("+refcol" if net.group.reference_column.notna().any() else ""))
    if len(net.controller):
        s.append("ctrl")
    if len(net.res_bus):
        s.append("res")
    return s


def execute(ep, ctx):
    net = None
    for i, op in enumerate(ep["ops"]):
        k = op["op"]
        if k == "template":
            net = ops.apply_template(op)
            ctx.event("template", op["name"])
            continue
        if net is None:
            continue
        ctx.sim["ops"] += 1
        before = copy.deepcopy(net)
        pre = {(a, b) for a, b, _ in ref_integrity(net)}      # (never blame an op for what was broken before)
        try:
            new_net, fam, info = apply_op(net, op)
        except Exception as e:
            # the operation refused the input: what it leaves behind must be intact as well (no half-created rows)
            left = [(a, b, c) for a, b, c in ref_integrity(net) if (a, b) not in pre]
            sigs_x = []
            for kind, tab, detail in left:
                sig = f"C22|{k}{':' + str(op.get('what') or op.get('et') or '') if (op.get('what') or op.get('et')) else ''}" \
                      f" raised {type(e).__name__}|{kind}|{tab}"
                if sig not in sigs_x:
                    sigs_x.append(sig)
                    ctx.violation(sig, f"op{i} {k} raised {type(e).__name__} ({e!s:.80}) and left behind: {detail}", op=i)
            net = before
            ctx.probe("op_rejected_and_rolled_back")
            ctx.event(k, "rejected", type(e).__name__, sigs_x)
            continue
        if new_net is None:
            ctx.event(k, "noop")
            continue
        net = new_net
        viol = ref_integrity(net)
        present = kinds_present(net)
        if "sw-t3" in present:
            ctx.probe("t3_switch_present")
        if "group+refcol" in present:
            ctx.probe("group_with_reference_column_present")
        if "ctrl" in present:
            ctx.probe("controller_present")
        if "res" in present:
            ctx.probe("result_tables_present")
        if fam in ("merge_nets", "select_subnet"):
            ctx.probe(fam + "_done")
        ctx.conclusive += 1
        ctx.features.append(f"{fam}|{present}|{ep['cfg']['template']}")
        sigs = []
        for kind, tab, detail in viol:
            if (kind, tab) in pre:
                continue
            sig = f"C22|{fam}|{kind}|{tab}"
            if sig not in sigs:
                sigs.append(sig)
                ctx.violation(sig, f"op{i} {fam}({info}): {detail}", op=i)
        ctx.event(k, fam, "ok", len(net.bus), len(net.line), sigs)
        if sigs:
            # the episode continues from the state before the offending operation, so that later operations are
            # judged on a consistent net (a dangling reference makes e.g. a later reindex fail half-way)
            net = before


def _attach_missing(net, existing_row):
    from pandapower.groups import attach_to_group
    if not len(net.group):
        raise UserWarning("no group")
    rows = net.group[net.group.reference_column.isnull()]
    if not len(rows):
        raise UserWarning("no index-based group row")
    g = rows.index[0]
    if existing_row:
        et = rows.element_type.iloc[0]
    else:
        have = set(net.group.element_type[net.group.index == g])
        et = next((t for t in ("storage", "shunt", "gen", "sgen", "load", "line") if t not in have and t in net), None)
        if et is None:
            raise UserWarning("no free element type")
    missing = (max(net[et].index) if len(net[et]) else 0) + 50
    attach_to_group(net, g, et, [[missing]])


def _pick_many(net, tab, a, n):
    idx = net[tab].index.tolist() if tab in net else []
    if not idx:
        return []
    out = []
    for j in range(n):
        x = ops.pick(idx, a + 7 * j)
        if x not in out:
            out.append(x)
    return out


def apply_op(net, op):
    """-> (net or None for no-op, operation family, info)"""
    import pandapower as pp
    import pandapower.toolbox as tb
    k, a, b, c = op["op"], op.get("a", 0), op.get("b", 0), op.get("c", 0)
    if k in ("create", "toggle", "set"):
        st, info = ops.apply_basic(net, op)
        if st == "raised":
            raise info
        return (net if st == "ok" else None), f"{k}:{op.get('et') or op.get('table')}", str(info)
    if k == "decorate":
        decorate(net, op["k"])
        return net, "create:references", ""
    if k == "runpp":
        pp.runpp(net)
        return net, "runpp", ""
    if k == "drop_buses":
        buses = [x for x in _pick_many(net, "bus", a, 1 + b % 2) if x not in set(net.ext_grid.bus)]
        if not buses or len(net.bus) - len(buses) < 2:
            return None, k, ""
        tb.drop_buses(net, buses)
        return net, k, str(buses)
    if k == "drop_lines":
        ls = _pick_many(net, "line", a, 1 + b % 2)
        if not ls:
            return None, k, ""
        tb.drop_lines(net, ls)
        return net, k, str(ls)
    if k == "drop_trafos":
        ts = _pick_many(net, op["table"], a, 1)
        if not ts:
            return None, k, ""
        tb.drop_trafos(net, ts, table=op["table"])
        return net, f"drop_trafos:{op['table']}", str(ts)
    if k == "drop_elements":
        et = op["et"]
        es = _pick_many(net, et, a, 1 + b % 2)
        if not es or (et == "ext_grid" and len(net.ext_grid) <= len(es)):
            return None, k, ""
        tb.drop_elements(net, et, es)
        return net, f"drop_elements:{et}", str(es)
    if k == "create_dangling":
        # a creation call whose reference does not exist: it must be refused (or at least leave nothing dangling)
        w = op["what"]
        missing = lambda tab: (max(net[tab].index) if len(net[tab]) else 0) + op["off"]
        okb = ops.pick(net.bus.index.tolist(), a)
        okb2 = ops.pick(net.bus.index.tolist(), b)
        mb = missing("bus")
        std = ops.LINE_STD[c % len(ops.LINE_STD)]
        calls = {
            "load": lambda: pp.create_load(net, mb, 0.1),
            "loads": lambda: pp.create_loads(net, [okb, mb], 0.1),
            "gen": lambda: pp.create_gen(net, mb, 0.1),
            "sgens": lambda: pp.create_sgens(net, [mb, okb], 0.1),
            "shunt": lambda: pp.create_shunt(net, mb, 0.1),
            "storage": lambda: pp.create_storage(net, mb, 0.1, 1.0),
            "ward": lambda: pp.create_ward(net, mb, 0.1, 0.1, 0.1, 0.1),
            "xward": lambda: pp.create_xward(net, mb, 0.1, 0.1, 0.1, 0.1, 0.1, 0.1, 1.0),
            "line": lambda: pp.create_line(net, okb, mb, 1.0, std),
            "lines": lambda: pp.create_lines(net, [okb, okb], [okb2, mb], 1.0, std),
            "impedance": lambda: pp.create_impedance(net, mb, okb, 0.01, 0.01, 1.0),
            "dcline": lambda: pp.create_dcline(net, okb, mb, 0.1, 1.0, 0.1, 1.0, 1.0),
            "trafo": lambda: pp.create_transformer(net, okb, mb, "25 MVA 110/20 kV"),
            "trafo3w": lambda: pp.create_transformer3w(net, okb, okb2, mb, "63/25/38 MVA 110/20/10 kV"),
            "switch_b": lambda: pp.create_switch(net, okb, mb, "b"),
            "switch_l": lambda: pp.create_switch(net, okb, missing("line"), "l"),
            "switch_t": lambda: pp.create_switch(net, okb, missing("trafo"), "t"),
            "switch_t3": lambda: pp.create_switch(net, okb, missing("trafo3w"), "t3"),
            "switches": lambda: pp.create_switches(net, [okb, okb], [missing("line"), missing("line") + 1], "l"),
            "meas_bus": lambda: pp.create_measurement(net, "v", "bus", 1.0, 0.01, mb),
            "meas_line": lambda: pp.create_measurement(net, "p", "line", 1.0, 0.01, missing("line"), side="from"),
            "meas_trafo3w": lambda: pp.create_measurement(net, "p", "trafo3w", 1.0, 0.01, missing("trafo3w"), side="hv"),
            "poly_cost": lambda: pp.create_poly_cost(net, missing("gen"), "gen", 1.0),
            "pwl_cost": lambda: pp.create_pwl_cost(net, missing("sgen"), "sgen", [[0, 1, 1.0]]),
            "poly_costs": lambda: pp.create_poly_costs(net, [missing("load"), missing("load") + 1], "load", 1.0),
            "pwl_costs": lambda: pp.create_pwl_costs(net, [missing("gen")], "gen", [[[0, 1, 1.0]]]),
            "group": lambda: pp.create_group(net, ["load"], [[missing("load")]], name="dangling"),
            "group_refcol": lambda: pp.create_group(net, ["bus"], [["no such bus name"]], name="dangling_rc",
                                                    reference_columns="name"),
            # attach to an existing index-based group row / as a new row of an existing group
            "group_attach": lambda: _attach_missing(net, existing_row=True),
            "group_attach_new_row": lambda: _attach_missing(net, existing_row=False),
        }
        if okb is None or okb2 is None:
            return None, k, ""
        calls[w]()
        return net, f"create_dangling:{w}", ""
    if k == "drop_group_and_elements":
        from pandapower.groups import drop_group_and_elements
        gs = sorted(set(net.group.index.tolist())) if len(net.group) else []
        g = ops.pick(gs, a)
        if g is None or "bus" in net.group.element_type[net.group.index == g].tolist():
            return None, k, ""
        drop_group_and_elements(net, g)
        return net, k, str(g)
    if k == "calc_sc":
        import pandapower.shortcircuit as sc
        sc.calc_sc(net, case="max")
        return net, "calc_sc", ""
    if k == "drop_elements_simple":
        et = op["et"]
        es = _pick_many(net, et, a, 1 + b % 2)
        if not es:
            return None, k, ""
        tb.drop_elements_simple(net, et, es)
        return net, f"drop_elements_simple:{et}", str(es)
    if k == "drop_switches_at_buses":
        buses = _pick_many(net, "bus", a, 1 + b % 2)
        if not buses:
            return None, k, ""
        tb.drop_switches_at_buses(net, buses)
        return net, k, str(buses)
    if k == "drop_measurements_at_elements":
        et = op["et"]
        if et not in net or not len(net[et]):
            return None, k, ""
        tb.drop_measurements_at_elements(net, et, idx=None if op["all"] else _pick_many(net, et, a, 2))
        return net, f"{k}:{et}", ""
    if k == "drop_controllers":
        if op["at_buses"]:
            buses = _pick_many(net, "bus", a, 2)
            if not buses:
                return None, k, ""
            tb.drop_controllers_at_buses(net, buses)
            return net, "drop_controllers_at_buses", str(buses)
        et = op["et"]
        if et not in net or not len(net[et]) or et == "bus":
            return None, k, ""
        tb.drop_controllers_at_elements(net, et, idx=None if op["all"] else _pick_many(net, et, a, 2))
        return net, f"drop_controllers_at_elements:{et}", ""
    if k == "drop_duplicated_measurements":
        tb.drop_duplicated_measurements(net, buses=None if b % 2 else _pick_many(net, "bus", a, 3))
        return net, k, ""
    if k == "drop_inner_branches":
        b1 = ops.pick(net.bus.index.tolist(), a)
        if b1 is None:
            return None, k, ""
        # buses around b1: both ends of the branches at b1
        buses = {int(b1)}
        for tab, c1, c2 in (("line", "from_bus", "to_bus"), ("trafo", "hv_bus", "lv_bus"), ("impedance", "from_bus", "to_bus")):
            if tab in net and len(net[tab]):
                t = net[tab]
                buses |= set(t[c2][t[c1] == b1].astype(int)) | set(t[c1][t[c2] == b1].astype(int))
        if "trafo3w" in net and len(net.trafo3w) and b % 2:
            t = net.trafo3w
            for c in ("hv_bus", "mv_bus", "lv_bus"):
                hit = t[t[c] == b1]
                for c_ in ("hv_bus", "mv_bus", "lv_bus"):
                    buses |= set(hit[c_].astype(int))
        tb.drop_inner_branches(net, sorted(buses))
        return net, k, str(sorted(buses))
    if k == "merge_parallel_line":
        ls = [l for l in net.line.index if net.line.at[l, "parallel"] > 1]
        l = ops.pick(ls, a)
        if l is None:
            return None, k, ""
        net = tb.merge_parallel_line(net, l) or net
        return net, k, str(l)
    if k == "merge_same_bus_generation_plants":
        tb.merge_same_bus_generation_plants(net, error=False)
        return net, k, ""
    if k == "repl_to_line":
        l = ops.pick(net.line.index.tolist(), a)
        if l is None:
            return None, k, ""
        tb.repl_to_line(net, l, ops.LINE_STD[b % len(ops.LINE_STD)], in_service=bool(c % 2))
        return net, k, str(l)
    if k == "drop_elements_at_buses":
        buses = [x for x in _pick_many(net, "bus", a, 1) if x not in set(net.ext_grid.bus)]
        if not buses:
            return None, k, ""
        tb.drop_elements_at_buses(net, buses)
        return net, k, str(buses)
    if k == "drop_inactive_elements":
        tb.drop_inactive_elements(net)
        return net, k, ""
    if k == "drop_out_of_service_elements":
        tb.drop_out_of_service_elements(net)
        return net, k, ""
    if k == "fuse_buses":
        b1 = ops.pick(net.bus.index.tolist(), a)
        b2 = ops._same_level_bus(net, b1, b) if b1 is not None else None
        if b2 is None:
            return None, k, ""
        tb.fuse_buses(net, b1, [b2], drop=op["drop"], fuse_bus_measurements=op.get("fuse_meas", True))
        return net, f"fuse_buses:drop={op['drop']}" + ("" if op.get("fuse_meas", True) else ":fuse_bus_measurements=False"), \
            f"{b1}<-{b2}"
    if k == "select_subnet":
        buses = _pick_many(net, "bus", a, max(3, len(net.bus) * 2 // 3))
        for eb in net.ext_grid.bus.values:
            if eb not in buses:
                buses.append(int(eb))
        new = tb.select_subnet(net, buses, include_results=bool(b % 2), include_switch_buses=op.get("switch_buses", False),
                               keep_everything_else=op.get("keep_else", False))
        return new, "select_subnet" + (":keep_everything_else" if op.get("keep_else") else ""), f"{len(buses)} buses"
    if k == "merge_nets":
        other = decorate(nets.get(op["other"]), a)
        new = tb.merge_nets(net, other, validate=False, net2_reindex_log_level=None)
        return new, "merge_nets", op["other"]
    if k == "reindex_buses":
        idx = net.bus.index.tolist()
        sel = idx[::2] if op["partial"] else idx
        top = max(idx) + op["shift"]
        lookup = {old: top + j + 1 for j, old in enumerate(sel)}
        tb.reindex_buses(net, lookup)
        return net, "reindex_buses", f"{len(lookup)} buses"
    if k == "reindex_elements":
        et = op["et"]
        if et not in net or not len(net[et]):
            return None, k, ""
        idx = net[et].index.tolist()
        if et == "group":
            idx = sorted(set(idx))
        sel = idx[::2] if op["partial"] else idx
        top = max(idx) + op["shift"]
        lookup = {old: top + j + 1 for j, old in enumerate(sel)}
        if et != "group":
            lookup = ops.overlapping_lookup(idx, op.get("mode", "above"), a, b) or lookup
        tb.reindex_elements(net, et, lookup=lookup)
        return net, f"reindex_elements:{et}", f"{len(lookup)} rows"
    if k == "create_continuous_bus_index":
        tb.create_continuous_bus_index(net, start=a % 3)
        return net, k, ""
    if k == "create_continuous_elements_index":
        tb.create_continuous_elements_index(net, start=a % 3)
        return net, k, ""
    if k == "replace":
        w = op["what"]
        fam = f"replace_{w}"
        if w == "ext_grid_by_gen":
            if len(net.ext_grid) < 2:
                return None, fam, ""
            tb.replace_ext_grid_by_gen(net, [ops.pick(net.ext_grid.index.tolist(), a)])
        elif w == "gen_by_ext_grid":
            if not len(net.gen):
                return None, fam, ""
            tb.replace_gen_by_ext_grid(net, [ops.pick(net.gen.index.tolist(), a)])
        elif w == "gen_by_sgen":
            if not len(net.gen):
                return None, fam, ""
            tb.replace_gen_by_sgen(net, [ops.pick(net.gen.index.tolist(), a)])
        elif w == "sgen_by_gen":
            if not len(net.sgen):
                return None, fam, ""
            tb.replace_sgen_by_gen(net, [ops.pick(net.sgen.index.tolist(), a)])
        elif w == "line_by_impedance":
            if not len(net.line):
                return None, fam, ""
            tb.replace_line_by_impedance(net, [ops.pick(net.line.index.tolist(), a)])
        elif w == "impedance_by_line":
            if not len(net.impedance):
                return None, fam, ""
            tb.replace_impedance_by_line(net, [ops.pick(net.impedance.index.tolist(), a)])
        elif w == "ward_by_internal":
            if not len(net.ward):
                return None, fam, ""
            tb.replace_ward_by_internal_elements(net, [ops.pick(net.ward.index.tolist(), a)])
        elif w == "xward_by_ward":
            if not len(net.xward):
                return None, fam, ""
            tb.replace_xward_by_ward(net, [ops.pick(net.xward.index.tolist(), a)])
        elif w == "xward_by_internal":
            if not len(net.xward):
                return None, fam, ""
            tb.replace_xward_by_internal_elements(net, [ops.pick(net.xward.index.tolist(), a)])
        elif w == "pq_elmtype":
            old, new = [("load", "sgen"), ("sgen", "load"), ("storage", "load"), ("load", "storage")][a % 4]
            if not len(net[old]):
                return None, fam, ""
            tb.replace_pq_elmtype(net, old, new, [ops.pick(net[old].index.tolist(), b)])
            fam = f"replace_pq_elmtype:{old}->{new}"
        elif w == "zero_branches_with_switches":
            tb.replace_zero_branches_with_switches(net)
        return net, fam, ""
    return None, k, ""
