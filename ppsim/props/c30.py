"""C30 -- network diagnostics are side-effect free and stateless.

Several Diagnostic clients interleaved in one process over shared module state.
Oracles: (1) snapshot of the diagnosed net, (2) per-instance model of function list and kwargs,
(3) isolation: the same call issued as the only call of a fresh forked process.
"""
import copy
import os
import pickle

from .. import nets, ops, oracles, core

PROPERTY = "C30"
BUDGET = {"quick": 400, "thorough": 10000}
LANES = 6      # fork-heavy (isolation oracle): more lanes only add fork contention in this VM
WALL_CAP = {"quick": 100, "thorough": 1500}
RULE = ("Episodes = 1-2 nets (feeder/four_bus/case9 with seeded defects: overload, open switches, disconnected "
        "elements, tiny impedances) and 2-4 Diagnostic clients; the client-interleave plan decides which client "
        "issues the next op (new client, register probe function, diagnose_network with seeded options, report). "
        "Non-trivial = a diagnose_network call whose result was compared with the per-instance model and with the "
        "same call in a fresh forked process; distinct = distinct (client history abstracted to op kinds on this "
        "and on other clients before the call, option keys, add_default flag)."
        ' All 19 diagnostic function classes registered (option-dependent ones more often), further seeded network defects, a run= callable failing at planned power flows, returned result dicts must not change later.')
COMPONENTS = {"real": ["pandapower.diagnostic.Diagnostic and all default diagnostic functions (incl. the power flows "
                       "they run)", "fresh forked interpreter for the isolation oracle"],
              "stub": ["probe DiagnosticFunction (records the kwargs it receives)", "DiagnosticModel"]}
ASSUMPTIONS = ["'results depend only on the network and the arguments of that call' is read literally: options of "
               "an earlier call do not carry over, registered functions are instance configuration and do",
               "the diagnosed net's element AND result tables are compared (diagnostics are documented to work on copies)",
               "results are compared in canonical JSON form; log output is not compared"]
REACH_PROBES = ["real_function_registered", "diagnose_after_other_client_registered", "diagnose_after_other_client_options",
                "diagnose_after_own_earlier_options", "diagnose_on_nonconverging_net", "isolated_reference_ran",
                "power_flow_inside_diagnostic_failed_as_planned"]

OPTION_VALUES = {"overload_scaling_factor": [0.001, 0.5, 0.01], "nominal_voltage_tolerance": [0.3, 0.05],
                 "min_r_ohm": [0.001, 1.0], "max_x_ohm": [100., 0.1], "capacitance_scaling_factor": [0.01, 0.5],
                 "numba_tolerance": [1e-5, 1e-12], "ppsim_unknown_option": [1, 2]}
REAL_CLASSES = ["ImplausibleImpedanceValues", "NominalVoltagesMismatch", "WrongLineCapacitance", "Overload",
                "DisconnectedElements", "InvalidValues", "SlackGenPlacement", "SubNetProblemTest", "OptimisticPowerflow",
                "WrongSwitchConfiguration", "MissingBusIndices", "DifferentVoltageLevelsConnected",
                "WrongReferenceSystem", "NumbaComparison", "DeviationFromStdType", "ParallelSwitches", "NoExtGrid",
                "MultipleVoltageControllingElementsPerBus", "TestContinuousBusIndices"]
# classes whose result depends on call options are where "options of an earlier call" can leak: drawn more often
_OPTION_DEPENDENT = ["ImplausibleImpedanceValues", "NominalVoltagesMismatch", "WrongLineCapacitance", "Overload",
                     "NumbaComparison"]
REAL_WEIGHTED = [c for c in REAL_CLASSES for _ in range(5 if c in _OPTION_DEPENDENT else 1)]
DEFECTS = ["overload", "open_switch", "line_off", "tiny_line", "bus_off", "none", "none", "zones", "gen_at_ext_grid_bus",
           "invalid_value", "parallel_switches", "std_type_deviation", "negative_load", "second_slack_gen",
           "overload+zones", "overload+second_slack_gen"]


PRISTINE = {}


def fresh_modules():
    """Re-execute the diagnostic modules, as a fresh process would on import: class attributes, module-level
    defaults and the shared default function objects all start anew.  Every episode (and every isolated
    reference call) begins with this, which emulates one process per episode for this package."""
    import importlib
    import sys
    importlib.import_module("pandapower.diagnostic")
    dfm = importlib.reload(sys.modules["pandapower.diagnostic.diagnostic_functions"])
    dm = importlib.reload(sys.modules["pandapower.diagnostic.diagnostic"])
    PRISTINE["kwargs"] = dict(dfm.default_argument_values)
    PRISTINE["functions"] = list(dfm.default_diagnostic_functions)
    PRISTINE["Diagnostic"] = dm.Diagnostic
    PRISTINE["dfm"] = dfm
    return dm.Diagnostic


def warm():
    from pandapower.diagnostic import Diagnostic
    import importlib
    dfm = importlib.import_module("pandapower.diagnostic.diagnostic_functions")
    nets.import_all_pandapower()
    # module-level state as a fresh process has it (captured before any Diagnostic is used); every
    # episode starts from it, which emulates one process per episode for this known shared state
    PRISTINE["kwargs"] = dict(dfm.default_argument_values)
    PRISTINE["functions"] = list(dfm.default_diagnostic_functions)
    nets.build_templates(["feeder", "four_bus", "case9"])
    for name in ("feeder", "four_bus"):
        try:
            Diagnostic().diagnose_network(nets.get(name), report_style=None)
        except Exception:
            pass


def warm_light():
    fresh_modules()


def generate(rng, idx, tier):
    n_nets = rng.choice([1, 1, 2])
    # "light" episodes: no client carries the 18 default functions (each diagnose then costs milliseconds instead
    # of 0.15 s), so many more calls on instances configured from pandapower's own function classes fit in
    light = rng.random() < 0.5
    cfg = {"n_clients": rng.randint(2, 4), "n_nets": n_nets, "light": light}
    ol = []
    for n in range(n_nets):
        ol.append({"op": "net", "name": rng.choice(["feeder", "four_bus", "case9", "feeder"]),
                   "defect": rng.choice(DEFECTS), "k": rng.randrange(1000)})
    n_diag = 0
    max_diag = 14 if light else 8
    p_real = 0.25 if light else 0.08
    for _ in range(rng.randint(10, 26) if light else rng.randint(6, 16)):
        c = rng.randrange(cfg["n_clients"])           # client-interleave fault plan
        r = rng.random()
        if r < 0.15:
            ol.append({"op": "new", "client": c, "add_default": False if light else rng.random() < 0.8})
        elif r < 0.15 + 0.1:
            ol.append({"op": "register", "client": c, "fn": rng.randrange(3),
                       "args": rng.choice([None, None, ["overload_scaling_factor"], []]),
                       "named": rng.random() < 0.5})
        elif r < 0.25 + p_real:
            # a fresh object of one of pandapower's own diagnostic function classes
            ol.append({"op": "register", "client": c, "real": rng.randrange(len(REAL_WEIGHTED)),
                       "args": None, "named": rng.random() < 0.5})
        elif r < 0.92 and n_diag < max_diag:
            n_diag += 1
            keys = rng.sample(sorted(OPTION_VALUES), rng.choice([0, 0, 1, 2, 3]))
            ol.append({"op": "diagnose", "client": c, "net": rng.randrange(n_nets),
                       "options": {k: rng.choice(OPTION_VALUES[k]) for k in keys},
                       "report": rng.choice([None, None, "compact"]),
                       # fault plan at the run= seam: which of the power flows inside the diagnostic functions
                       # fail, and how (documented non-convergence / an unexpected error)
                       "run_fail": None if rng.random() < 0.75 else
                       {"at": sorted(rng.sample(range(1, 14), rng.choice([1, 1, 2]))), "exc": rng.choice(["lnc", "value"])},
                       # the fresh-process reference costs a fork (0.3-1 s under load in this VM): sampled
                       "iso": rng.random() < (0.15 if light else 0.3)})
        else:
            ol.append({"op": "report", "client": c})
    diag = [o for o in ol if o["op"] == "diagnose"]
    if diag and not any(o["iso"] for o in diag):
        diag[-1]["iso"] = True
    return {"cfg": cfg, "ops": ol}


def simplify_op(op):
    out = []
    if op.get("op") == "diagnose" and op.get("options"):
        for k in sorted(op["options"]):
            o = copy.deepcopy(op)
            del o["options"][k]
            out.append(o)
    if op.get("op") == "net" and op.get("defect") != "none":
        o = dict(op)
        o["defect"] = "none"
        out.append(o)
    return out


# ---------------------------------------------------------------------------------------------
def make_probe_class():
    from pandapower.diagnostic.diagnostic_helpers import DiagnosticFunction

    class ProbeFunction(DiagnosticFunction):
        """records the kwargs it receives; its result is a function of exactly those"""

        def __init__(self, tag):
            super().__init__()
            self.tag = tag

        def diagnostic(self, net, **kwargs):
            return {"tag": self.tag, "kwargs": {k: kwargs[k] for k in sorted(kwargs)}, "n_bus": len(net.bus)}

        def report(self, error, results):
            return None

    return ProbeFunction


def build_net(op):
    net = nets.get(op["name"])
    d, k = op["defect"], op["k"]
    if d == "overload":
        net.load["scaling"] = 80.
    elif d == "open_switch":
        import pandapower as pp
        l = ops.pick(net.line.index.tolist(), k)
        pp.create_switch(net, int(net.line.at[l, "from_bus"]), l, "l", closed=False)
    elif d == "line_off":
        l = ops.pick(net.line.index.tolist(), k)
        net.line.at[l, "in_service"] = False
    elif d == "tiny_line":
        l = ops.pick(net.line.index.tolist(), k)
        net.line.at[l, "length_km"] = 1e-7
    elif d == "bus_off":
        b = ops.pick([b for b in net.bus.index if b not in set(net.ext_grid.bus)], k)
        net.bus.at[b, "in_service"] = False
    import pandapower as pp
    if "overload+" in d:
        net.load["scaling"] = 80.
    if "zones" in d:
        net.bus["zone"] = ["north" if (j + k) % 2 else "south" for j in range(len(net.bus))]
    if d == "gen_at_ext_grid_bus":
        pp.create_gen(net, int(net.ext_grid.bus.iloc[0]), p_mw=0.1, vm_pu=1.0)
    elif d == "invalid_value":
        l = ops.pick(net.line.index.tolist(), k)
        net.line.at[l, "length_km"] = -1.0
    elif d == "parallel_switches":
        b1 = ops.pick(net.bus.index.tolist(), k)
        b2 = ops._same_level_bus(net, b1, k + 1)
        if b2 is not None:
            pp.create_switch(net, int(b1), int(b2), "b", closed=False)
            pp.create_switch(net, int(b1), int(b2), "b", closed=False)
    elif d == "std_type_deviation":
        l = ops.pick(net.line.index.tolist(), k)
        net.line.at[l, "r_ohm_per_km"] = float(net.line.at[l, "r_ohm_per_km"]) * 1.5
    elif d == "negative_load":
        l = ops.pick(net.load.index.tolist(), k)
        net.load.at[l, "p_mw"] = -abs(float(net.load.at[l, "p_mw"]))
    if "second_slack_gen" in d:
        b = ops.pick([b for b in net.bus.index if b not in set(net.ext_grid.bus)], k)
        pp.create_gen(net, int(b), p_mw=0.2, vm_pu=1.0, slack=False)
        pp.create_gen(net, int(ops.pick([x for x in net.bus.index if x not in set(net.ext_grid.bus) and x != b], k + 1)),
                      p_mw=0.1, vm_pu=1.0, slack=True)
    return net


class ClientModel:
    def __init__(self, add_default, default_names, default_kwargs):
        self.add_default = add_default
        self.functions = list(default_names) if add_default else []     # names, in order
        self.base_kwargs = dict(default_kwargs) if add_default else {}
        self.registrations = []                                         # (fn, args, name)
        self.hist = []


def make_function(fn, Probe):
    """fn: int -> probe function; str -> a fresh object of that pandapower diagnostic function class"""
    if isinstance(fn, str):
        return getattr(PRISTINE["dfm"], fn)()
    return Probe(fn)


def construct(add_default, registrations, Probe):
    Diagnostic = PRISTINE["Diagnostic"]
    d = Diagnostic(add_default_functions=add_default)
    for fn, args, name in registrations:
        d.register_function(make_function(fn, Probe), args, name)
    return d


def construct_from_fresh_objects(add_default, registrations, Probe):
    """the same configuration built through the public API from brand-new function objects (also for the
    defaults, which are module-level singletons shared by all Diagnostic instances)"""
    Diagnostic = PRISTINE["Diagnostic"]
    d = Diagnostic(add_default_functions=False)
    if add_default:
        for name, f, args in PRISTINE["functions"]:
            d.register_function(type(f)(), args, name)
    for fn, args, name in registrations:
        d.register_function(make_function(fn, Probe), args, name)
    return d


_RETURNED = []


def _canon_result(res):
    """canonical form of a result dict (the run= callable echoed by probe functions is not data)"""
    def strip(x):
        if isinstance(x, dict):
            return {k_: strip(v_) for k_, v_ in x.items() if k_ != "run"}
        return x
    return oracles.canon(strip(res)) if isinstance(res, dict) else oracles.canon(res)


def make_run(plan):
    """run= callable of one diagnose_network call: the real runpp, failing at the planned invocations (a new object
    per call and per reference, so that every execution of the same call sees the same fault sequence)"""
    import pandapower as pp
    from pandapower.auxiliary import LoadflowNotConverged
    state = {"n": 0}

    def run(net, **kw):
        state["n"] += 1
        if state["n"] in plan["at"]:
            if plan["exc"] == "lnc":
                raise LoadflowNotConverged(f"ppsim: planned failure of power flow #{state['n']}")
            raise ValueError(f"ppsim: planned error in power flow #{state['n']}")
        return pp.runpp(net, **kw)
    run.__name__ = "runpp"
    run.state = state
    return run


def _call_kwargs(options, run_fail):
    kw = dict(options)
    if run_fail:
        kw["run"] = make_run(run_fail)
    return kw



def _isolated_call(add_default, registrations, net_before, options, run_fail=None):
    """the same call as the only call of a fresh forked process"""
    r, w = os.pipe()
    pid = core.REAL_FORK()
    if pid == 0:
        code = 0
        try:
            os.close(r)
            fresh_modules()          # (fork copies the parent's - possibly polluted - module state)
            Probe = make_probe_class()
            d = construct(add_default, registrations, Probe)
            try:
                res = d.diagnose_network(net_before, report_style=None, **_call_kwargs(options, run_fail))
                out = {"result": _canon_result(res), "errors": sorted(d.diag_errors)}
            except Exception as e:
                out = {"raised": type(e).__name__}
            with os.fdopen(w, "wb") as fh:
                fh.write(pickle.dumps(out))
        except BaseException:
            code = 3
        finally:
            os._exit(code)
    os.close(w)
    with os.fdopen(r, "rb") as fh:
        data = fh.read()
    os.waitpid(pid, 0)
    return pickle.loads(data) if data else {"raised": "child-died"}


def execute(ep, ctx):
    fresh_modules()
    del _RETURNED[:]
    default_diagnostic_functions = PRISTINE["functions"]
    default_argument_values = PRISTINE["kwargs"]
    Probe = make_probe_class()
    # defaults as a *fresh process* has them -- taken from a pristine import in the warm parent is
    # not possible in-process (that is the leak under test), so they are read once per episode and
    # the isolation oracle (fresh fork) is what detects a polluted module.
    default_names = [n for n, _, _ in default_diagnostic_functions][:18]
    default_kwargs = {k: default_argument_values[k] for k in
                      ("overload_scaling_factor", "capacitance_scaling_factor", "min_r_ohm", "min_x_ohm",
                       "max_r_ohm", "max_x_ohm", "nominal_voltage_tolerance", "numba_tolerance")}
    PRISTINE_KW = {"overload_scaling_factor": 0.001, "capacitance_scaling_factor": 0.01, "min_r_ohm": 0.001,
                   "min_x_ohm": 0.001, "max_r_ohm": 100., "max_x_ohm": 100., "nominal_voltage_tolerance": 0.3,
                   "numba_tolerance": 1e-05}
    nets_ = []
    clients = {}
    models = {}
    global_hist = []
    for i, op in enumerate(ep["ops"]):
        k = op["op"]
        ctx.sim["ops"] += 1
        if k == "net":
            nets_.append(build_net(op))
            ctx.event("net", op["name"], op["defect"])
            continue
        if not nets_:
            continue
        c = op["client"]
        if k == "new" or c not in clients:
            add_default = op.get("add_default", not ctx.ep["cfg"].get("light", False))
            clients[c] = PRISTINE["Diagnostic"](add_default_functions=add_default)
            models[c] = ClientModel(add_default, default_names, PRISTINE_KW)
            global_hist.append((c, "new"))
            ctx.event("new", c, add_default)
            # a brand-new instance must look like the model
            _check_instance(clients[c], models[c], ctx, i, "new")
            if k == "new":
                continue
        d, m = clients[c], models[c]
        if k == "register":
            fn = REAL_WEIGHTED[op["real"] % len(REAL_WEIGHTED)] if "real" in op else op["fn"]
            name = f"fn{fn}_{len(m.registrations)}" if op["named"] else None
            fobj = make_function(fn, Probe)
            d.register_function(fobj, op["args"], name)
            m.registrations.append((fn, op["args"], name))
            m.functions.append(name or type(fobj).__name__)
            if isinstance(fn, str):
                ctx.probe("real_function_registered")
            m.hist.append("register")
            global_hist.append((c, "register"))
            ctx.event("register", c, fn, op["args"], name)
        elif k == "report":
            try:
                d.report()
                ctx.event("report", c, "ok")
            except RuntimeError:
                ctx.event("report", c, "no-results")
            except Exception as e:
                ctx.event("report", c, type(e).__name__)
        elif k == "diagnose":
            net = nets_[op["net"] % len(nets_)]
            _exec_diagnose(d, m, c, net, op, i, ctx, global_hist, Probe)


def _check_instance(d, m, ctx, i, when):
    names = [n for n, _, _ in d._functions]
    if names != m.functions:
        extra = [n for n in names if n not in m.functions]
        ctx.violation("C30|model|function list leaked between instances",
                      f"op{i} ({when}): instance has {len(names)} functions, model says {len(m.functions)}; "
                      f"unexpected: {extra[:4]}", op=i)
        return False
    return True


def _exec_diagnose(d, m, c, net, op, i, ctx, global_hist, Probe):
    options = dict(op["options"])
    ctx.sim["diagnose_calls"] += 1
    others_registered = any(cc != c and what == "register" for cc, what in global_hist)
    others_options = any(cc != c and what == "diagnose-with-options" for cc, what in global_hist)
    own_earlier = "diagnose-with-options" in m.hist
    if others_registered:
        ctx.probe("diagnose_after_other_client_registered")
    if others_options:
        ctx.probe("diagnose_after_other_client_options")
    if own_earlier:
        ctx.probe("diagnose_after_own_earlier_options")
    net_before = copy.deepcopy(net)
    snap = oracles.snapshot(net, with_results=True)
    run_fail = op.get("run_fail")
    if run_fail:
        ctx.fault_configured("run-callback-fail")
    try:
        ckw = _call_kwargs(options, run_fail)
        res = d.diagnose_network(net, report_style=op["report"], **ckw)
        live = {"result": _canon_result(res), "errors": sorted(d.diag_errors)}
    except Exception as e:
        res = None
        live = {"raised": type(e).__name__}
    if run_fail and any(k_ <= ckw["run"].state["n"] for k_ in run_fail["at"]):
        ctx.fault_fired("run-callback-fail")
        ctx.probe("power_flow_inside_diagnostic_failed_as_planned")
    # earlier returned result dicts are the caller's: a later call must not change them
    for (ci_, j_, obj_, snap_) in _RETURNED:
        if _canon_result(obj_) != snap_:
            ctx.violation("C30|returned result of an earlier call changed",
                          f"op{i}: the dict returned by diagnose call op{j_} (client {ci_}) changed during a later "
                          f"call", op=i)
    if isinstance(res, dict):
        _RETURNED.append((c, i, res, _canon_result(res)))
        del _RETURNED[:-6]
    # (1) the diagnosed net is unchanged
    diffs, _ = oracles.diff_snapshot(snap, net)
    for dd in diffs[:3]:
        kind = "result table" if dd["table"].startswith("res_") else "element table"
        ctx.violation(f"C30|snapshot|{kind} changed by diagnose_network",
                      f"op{i}: diagnose_network({options}) changed net.{dd['table']} {dd['kind']} "
                      f"{dd.get('col') or ''} {dd['detail']}", op=i)
    conv = bool(net_before.get("converged", False))
    # (2) per-instance model
    ok_model = _check_instance(d, m, ctx, i, "diagnose")
    want_kwargs = dict(m.base_kwargs)
    want_kwargs.update(options)
    if res is not None:
        for name, val in res.items():
            if isinstance(val, dict) and "tag" in val and "kwargs" in val:
                # functions registered under the same name share one result key: the last one wins
                reg = next((r for r in reversed(m.registrations)
                            if not isinstance(r[0], str) and (r[2] or "ProbeFunction") == name), None)
                if reg is None:
                    continue
                fn, args, _ = reg
                want = want_kwargs if args is None else {a: want_kwargs.get(a) for a in args}
                got = {k_: v_ for k_, v_ in val["kwargs"].items() if k_ != "run"}
                if oracles.canon(got) != oracles.canon({k: want[k] for k in sorted(want)}):
                    leaked = sorted(set(got) ^ set(want)) or \
                        sorted(k for k in want if oracles.canon(got.get(k)) != oracles.canon(want[k]))
                    origin = "an earlier call on this instance" if own_earlier and not others_options else \
                        "another instance" if others_options and not own_earlier else "an earlier call"
                    ctx.violation(f"C30|model|kwargs leaked from {origin}",
                                  f"op{i}: probe function {name} received {got}, call arguments+defaults are "
                                  f"{want}; differing keys {leaked}", op=i)
    # (2b) the same configuration rebuilt from brand-new function objects, same call, in this process:
    # catches state kept in Diagnostic instances or in (shared) diagnostic function objects
    try:
        ref_d = construct_from_fresh_objects(m.add_default, list(m.registrations), Probe)
        rres = ref_d.diagnose_network(copy.deepcopy(net_before), report_style=None,
                                      **_call_kwargs({**m.base_kwargs, **options}, run_fail))
        fresh = {"result": _canon_result(rres), "errors": sorted(ref_d.diag_errors)}
    except Exception as e:
        fresh = {"raised": type(e).__name__}
    if oracles.canon(live) != oracles.canon(fresh):
        lk, fk = set(live.get("result") or {}), set(fresh.get("result") or {})
        diffkeys = sorted(lk ^ fk) or sorted(k for k in lk if live["result"][k] != fresh["result"][k]) or \
            ["errors" if live.get("errors") != fresh.get("errors") else "raised"]
        ctx.violation("C30|fresh-objects|result depends on earlier calls",
                      f"op{i}: diagnose_network({options}) on this instance vs the same configuration built from "
                      f"new function objects: differing keys {diffkeys[:5]}; errors {live.get('errors')} vs "
                      f"{fresh.get('errors')}", op=i)
    # (3) isolation: same call, only call, fresh process (sampled by the plan)
    hist_self = "/".join(m.hist[-3:]) or "-"
    hist_other = "/".join(sorted({w for cc, w in global_hist if cc != c})) or "-"
    if op.get("iso"):
        iso = _isolated_call(m.add_default, list(m.registrations), net_before, options, run_fail)
        ctx.probe("isolated_reference_ran")
        if "raised" in iso and iso["raised"] == "child-died":
            ctx.inconclusive += 1
        else:
            ctx.conclusive += 1
            if oracles.canon(live) != oracles.canon(iso):
                what = "raised-vs-returned" if ("raised" in live) != ("raised" in iso) else \
                    "result keys differ" if set((live.get("result") or {})) != set((iso.get("result") or {})) else \
                    "result values differ"
                lk, ik = set(live.get("result") or {}), set(iso.get("result") or {})
                diffkeys = sorted(lk ^ ik) or sorted(k for k in lk if live["result"][k] != iso["result"][k])
                ctx.violation(f"C30|isolation|{what}",
                              f"op{i}: diagnose_network({options}) in this process vs the same call as the only "
                              f"call of a fresh process: differing keys {diffkeys[:5]}; errors "
                              f"{live.get('errors')} vs {iso.get('errors')}", op=i)
            ctx.features.append(f"iso|{hist_self}|{hist_other}|{sorted(options)}|{m.add_default}|{'raised' in live}")
    else:
        ctx.conclusive += 1
        ctx.features.append(f"model|{hist_self}|{hist_other}|{sorted(options)}|{m.add_default}|{'raised' in live}")
    if not conv and res is not None and "overload" in res:
        ctx.probe("diagnose_on_nonconverging_net")
    m.hist.append("diagnose-with-options" if options else "diagnose")
    global_hist.append((c, "diagnose-with-options" if options else "diagnose"))
    ctx.event("diagnose", c, sorted(options), sorted((live.get("result") or {}).keys()), live.get("raised"),
              len(diffs))
