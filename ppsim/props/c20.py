"""C20 (narrow) -- saving and loading a network loses nothing.

Claimed part: snapshot/restore inside a history with a replica-divergence oracle, and the stream
seam (file-like arguments and a wrapped `open`, failing write / close).  The value-generation half
of the property (odd strings, tiny floats, nullable dtypes) is input generation and is not claimed.
"""
import copy
import errno
import io
import os
import shutil

import numpy as np
import pandas as pd

from .. import nets, ops, oracles
from . import c08, c22

PROPERTY = "C20"
BUDGET = {"quick": 320, "thorough": 15000}
WALL_CAP = {"quick": 150, "thorough": 1500}
RULE = ("Episodes = small net decorated with controllers, groups, costs, measurements, tap tables, user options, "
        "custom columns and non-contiguous indices + 8-25 seeded ops (edits, calculations, toolbox edits) with "
        "save/load points through a seeded format/flavour (JSON string, JSON to an in-memory stream, JSON to a path, "
        "encrypted JSON, pickle to path/stream, Excel, SQLite). The loaded replica is compared with the live net at "
        "once, then BOTH receive the same subsequent ops and every later calculation must agree. Saves with an "
        "injected stream error (write at byte n, close) must raise, leave the live net unchanged and be followed by "
        "a clean round trip. Non-trivial = a save/load pair was compared; distinct = distinct (format/flavour, "
        "reference kinds present, ops since the previous save, fault kind)."
        ' Encryption with path, stream and string targets; a raising load is a violation.')
COMPONENTS = {"real": ["to_json/from_json(+_string), to_pickle/from_pickle, to_excel/from_excel, to_sqlite/"
                       "from_sqlite, PPJSONEncoder/Decoder, encryption", "openpyxl / sqlite3 on a tmpfs directory"],
              "stub": ["SimStream (in-memory text/binary streams honouring the io contract, failing write)",
                       "wrapped open() in pandapower.file_io (failing write/close for paths in the episode directory)"]}
ASSUMPTIONS = ["null-likes (None/NaN/NA) in object columns are the same value", "JSON floats: |a-b| <= 1e-14*max(1,|a|)",
               "Excel/SQLite: element tables only, values and index (not dtypes); a save that raises is a refusal "
               "(counted, not alarmed)", "short reads/writes are not injected (json/pickle require full reads by contract)"]
REACH_PROBES = ["stream_error_fired", "save_raised_as_required", "replica_compared_after_later_calc",
                "controllers_present_at_save", "groups_present_at_save", "loaded_net_saved_and_loaded_again"]

FORMATS = [("json_str", 4), ("json_stream", 3), ("json_path", 3), ("json_enc", 2), ("json_enc_stream", 2), ("json_enc_str", 1),
           ("pickle_path", 3),
           ("pickle_stream", 2), ("excel", 2), ("sqlite", 2)]
TEMPLATES = [("feeder_all", 3), ("feeder", 3), ("case9", 2), ("feeder_t3w", 2), ("feeder_taptable", 2), ("cigre_mv", 1)]


def warm():
    import pandapower as pp
    nets.import_all_pandapower()
    nets.build_templates([t for t, _ in TEMPLATES])
    net = c22.decorate(nets.get("feeder_all"), 1)
    pp.runpp(net)
    pp.from_json_string(pp.to_json(net))
    d = "/dev/shm/ppsim-warm-%d" % os.getpid()
    os.makedirs(d, exist_ok=True)
    try:
        pp.to_excel(net, d + "/n.xlsx")
        pp.from_excel(d + "/n.xlsx")
    except Exception:
        pass
    finally:
        shutil.rmtree(d, ignore_errors=True)


def generate(rng, idx, tier):
    cfg = {"template": c08._wchoice(rng, TEMPLATES)}
    ol = [{"op": "template", "name": cfg["template"]}, {"op": "decorate", "k": rng.randrange(1000)},
          {"op": "extras", "k": rng.randrange(1000)}]
    for _ in range(rng.randint(8, 25)):
        r = rng.random()
        if r < 0.28:
            op = {"op": "save_load", "fmt": c08._wchoice(rng, FORMATS), "again": rng.random() < 0.25}
            if rng.random() < 0.2 and op["fmt"] in ("json_stream", "json_path", "pickle_path", "pickle_stream"):
                op["fault"] = {"kind": "stream-error", "where": rng.choice(["write", "write", "close"]),
                               "at": round(rng.random(), 4), "errno": rng.choice(["ENOSPC", "EIO"])}
            ol.append(op)
        elif r < 0.5:
            ol.append(ops.gen_set(rng))
        elif r < 0.6:
            ol.append(ops.gen_toggle(rng))
        elif r < 0.7:
            ol.append(ops.gen_create(rng, ["load", "sgen", "gen", "line", "switch_l", "shunt", "storage", "bus"]))
        elif r < 0.76:
            ol.append(ops.gen_drop(rng, ("load", "sgen", "line", "shunt")))
        elif r < 0.8:
            ol.append({"op": "set_opts", "kw": rng.choice([{"tolerance_mva": 1e-6}, {"trafo_model": "pi"},
                                                            {"max_iteration": 20}, {"init": "dc"}])})
        else:
            kind = c08._wchoice(rng, [("runpp", 6), ("rundcpp", 1), ("calc_sc", 1), ("run_control", 2)])
            kw = {}
            if kind == "runpp":
                kw = rng.choice([{}, {}, {"algorithm": "iwamoto_nr"}, {"enforce_q_lims": True}, {"numba": False}])
            elif kind == "calc_sc":
                kw = {"fault": "3ph", "case": "max"}
            ol.append({"op": "calc", "kind": kind, "kw": kw})
    ol.append({"op": "save_load", "fmt": c08._wchoice(rng, FORMATS)})
    ol.append({"op": "calc", "kind": "runpp", "kw": {}})
    return {"cfg": cfg, "ops": ol}


def simplify_op(op):
    out = []
    if op.get("op") == "save_load":
        if op.get("fault"):
            o = copy.deepcopy(op); o.pop("fault"); out.append(o)
        if op["fmt"] != "json_str" and not op.get("fault"):
            o = copy.deepcopy(op); o["fmt"] = "json_str"; out.append(o)
    if op.get("op") == "calc" and op.get("kw"):
        o = copy.deepcopy(op); o["kw"] = {}; out.append(o)
    return out


# ---------------------------------------------------------------------------------------------
class StreamFault(OSError):
    pass


class SimStream:
    """in-memory stream honouring the io contract the serialisers rely on (read() returns everything,
    read(n)/readinto are never short); write can raise OSError at byte n, leaving a truncated file"""

    def __init__(self, binary, fail_at=None, err=errno.ENOSPC):
        self.binary = binary
        self.buf = io.BytesIO() if binary else io.StringIO()
        self.fail_at = fail_at
        self.err = err
        self.written = 0
        self.fired = False
        self.closed = False

    def write(self, data):
        n = len(data)
        if self.fail_at is not None and self.written + n > self.fail_at:
            keep = max(0, self.fail_at - self.written)
            self.buf.write(data[:keep])
            self.written += keep
            self.fired = True
            raise StreamFault(self.err, os.strerror(self.err))
        self.buf.write(data)
        self.written += n
        return n

    def flush(self):
        return None

    def close(self):
        self.closed = True

    def getvalue(self):
        return self.buf.getvalue()

    def reader(self):
        return io.BytesIO(self.getvalue()) if self.binary else io.StringIO(self.getvalue())


class FaultyFile:
    """real file under the episode directory whose write/close follow the fault plan"""

    def __init__(self, fh, fault, size_hint):
        self.fh = fh
        self.fault = fault
        self.fail_at = int(fault["at"] * max(1, size_hint)) if fault["where"] == "write" else None
        self.written = 0
        self.fired = False
        self.err = getattr(errno, fault["errno"])

    def write(self, data):
        n = len(data)
        if self.fail_at is not None and self.written + n > self.fail_at:
            keep = max(0, self.fail_at - self.written)
            self.fh.write(data[:keep])
            self.written += keep
            self.fired = True
            raise StreamFault(self.err, os.strerror(self.err))
        self.written += n
        return self.fh.write(data)

    def flush(self):
        return self.fh.flush()

    def close(self):
        self.fh.close()
        if self.fault["where"] == "close" and not self.fired:
            self.fired = True       # a full disk reported when the buffered data is finally written
            raise StreamFault(self.err, os.strerror(self.err))

    def __enter__(self):
        return self

    def __exit__(self, et, ev, tb):
        if et is None:
            self.close()
        else:
            try:
                self.fh.close()
            except Exception:
                pass
        return False

    def __getattr__(self, name):
        return getattr(self.fh, name)


# ---------------------------------------------------------------------------------------------
def add_extras(net, k):
    import pandapower as pp
    net.load["custom_tag"] = [f"x{(k + i) % 7}" for i in range(len(net.load))]
    if len(net.line):
        net.line["ppsim_float"] = np.linspace(0.1, 0.9, len(net.line))
    pp.set_user_pf_options(net, tolerance_mva=[1e-8, 1e-6][k % 2])
    # one group whose rows use different reference columns (index for buses/lines, "name" for loads)
    if len(net.load) and len(net.bus):
        from pandapower.groups import attach_to_group
        net.load["name"] = [f"load_{i}" for i in net.load.index]
        types, idx = ["bus"], [[net.bus.index[k % len(net.bus)]]]
        if len(net.line):
            types.append("line")
            idx.append([net.line.index[k % len(net.line)]])
        gi = pp.create_group(net, types, idx, name="mixed_refs")
        attach_to_group(net, gi, "load", [[net.load.name.iloc[k % len(net.load)]]], reference_columns="name")
    return net


def _null(x):
    try:
        return x is None or x is pd.NA or (isinstance(x, float) and np.isnan(x))
    except Exception:
        return False


def compare_nets(a, b, fmt, tables_only=False, value_only=False):
    """a = live, b = loaded -> list of (kind, where, detail)"""
    out = []
    keys = sorted(k for k in set(a.keys()) | set(b.keys()) if not k.startswith("_"))
    for k in keys:
        ina, inb = k in a, k in b
        x = a[k] if ina else None
        y = b[k] if inb else None
        if isinstance(x, pd.DataFrame) or isinstance(y, pd.DataFrame):
            if tables_only and (k.startswith("res_") or k in ("group", "controller", "characteristic", "output_writer")
                                or k.endswith("_std_types")):
                continue
            if not ina or not isinstance(x, pd.DataFrame):
                if isinstance(y, pd.DataFrame) and len(y):
                    out.append(("extra table", k, f"{len(y)} rows only in the loaded net"))
                continue
            if not inb or not isinstance(y, pd.DataFrame):
                if len(x):
                    out.append(("missing", k, f"table with {len(x)} rows is missing after loading"))
                continue
            if len(x) == 0 and len(y) == 0 and tables_only:
                continue
            if len(x) != len(y) or not np.array_equal(np.asarray(x.index), np.asarray(y.index)):
                out.append(("index", k, f"{x.index.tolist()[:6]} vs {y.index.tolist()[:6]}"))
                continue
            if not value_only and x.index.dtype != y.index.dtype and len(x):
                out.append(("dtype", f"{k}.index", f"{x.index.dtype} -> {y.index.dtype}"))
            miss = [c for c in x.columns if c not in y.columns]
            extra = [c for c in y.columns if c not in x.columns]
            if miss and not (tables_only and all(x[c].isnull().all() for c in miss)):
                out.append(("missing", f"{k}.columns", f"columns {miss[:4]} lost"))
            if extra and not value_only:
                out.append(("extra column", f"{k}.columns", f"columns {extra[:4]} appeared"))
            for c in x.columns:
                if c not in y.columns:
                    continue
                if not value_only and x[c].dtype != y[c].dtype and len(x):
                    # an all-null object column has no dtype information to lose
                    if not (x[c].isnull().all() and y[c].isnull().all()):
                        out.append(("dtype", f"{k}.{c}", f"{x[c].dtype} -> {y[c].dtype}"))
                d = _col_diff(x[c].values, y[c].values, k, c, loose=value_only)
                if d:
                    out.append(("values", f"{k}.{c}", d))
        elif not tables_only:
            if k in ("version", "format_version"):
                continue
            if not ina or not inb:
                if not (_null(x) and _null(y)):
                    out.append(("missing" if ina else "extra item", k, ""))
                continue
            if oracles.canon(x) != oracles.canon(y):
                out.append(("values", k, f"{str(oracles.canon(x))[:70]} vs {str(oracles.canon(y))[:70]}"))
    return out


def _col_diff(xa, ya, table, col, loose=False):
    for i, (p, q) in enumerate(zip(xa.tolist() if hasattr(xa, "tolist") else xa,
                                   ya.tolist() if hasattr(ya, "tolist") else ya)):
        if _null(p) and _null(q):
            continue
        if loose and (isinstance(p, str) != isinstance(q, str)):
            # Excel / SQLite columns are typed: a value of a mixed-type object column comes back as text (or as
            # a number) - what these formats can represent is the printed value
            try:
                if str(p) == str(q) or float(p) == float(q):
                    continue
            except (TypeError, ValueError):
                pass
        if isinstance(p, (int, float, np.integer, np.floating)) and isinstance(q, (int, float, np.integer, np.floating)) \
                and not isinstance(p, bool) and not isinstance(q, bool):
            pf, qf = float(p), float(q)
            if pf == qf or abs(pf - qf) <= 1e-14 * max(1.0, abs(pf)):
                continue
            return f"row {i}: {p!r} vs {q!r}"
        if col == "object" or hasattr(p, "__dict__"):
            if oracles.canon(p) != oracles.canon(q):
                return f"row {i}: object attributes differ: {_attr_diff(p, q)}"
            continue
        if oracles.canon(p) != oracles.canon(q):
            return f"row {i}: {p!r} vs {q!r}"
    return None


def _attr_diff(p, q):
    a, b = oracles.canon(p), oracles.canon(q)
    if isinstance(a, dict) and isinstance(b, dict) and "attrs" in a and "attrs" in b:
        ks = [k for k in set(a["attrs"]) | set(b["attrs"]) if a["attrs"].get(k) != b["attrs"].get(k)]
        return f"{a.get('__class__')}/{b.get('__class__')} attrs {sorted(ks)[:5]}"
    return f"{str(a)[:60]} vs {str(b)[:60]}"


def save_and_load(net, fmt, tmpdir, fault, ctx):
    """-> (loaded net or None, save exception or None, fired: bool, refused: bool)"""
    import pandapower as pp
    import pandapower.file_io as fio
    fired = False
    if fmt == "json_str":
        return pp.from_json_string(pp.to_json(net)), None, False, False
    if fmt == "json_enc":
        p = os.path.join(tmpdir, "n_enc.json")
        pp.to_json(net, p, encryption_key="ppsim-key")
        return pp.from_json(p, encryption_key="ppsim-key"), None, False, False
    if fmt == "json_enc_str":
        s = pp.to_json(net, encryption_key="ppsim-key")
        return pp.from_json_string(s, encryption_key="ppsim-key"), None, False, False
    if fmt == "json_enc_stream":
        # encryption is orthogonal to the kind of target: a caller-owned text stream
        s = SimStream(False, fail_at=None, err=errno.ENOSPC)
        pp.to_json(net, s, encryption_key="ppsim-key")
        return pp.from_json(s.reader(), encryption_key="ppsim-key"), None, False, False
    if fmt in ("json_stream", "pickle_stream"):
        binary = fmt == "pickle_stream"
        size = len(pp.to_json(net)) if not binary else 20000
        s = SimStream(binary, fail_at=int(fault["at"] * size) if fault and fault["where"] == "write" else None,
                      err=getattr(errno, fault["errno"]) if fault else errno.ENOSPC)
        try:
            (pp.to_pickle if binary else pp.to_json)(net, s)
        except BaseException as e:
            return None, e, s.fired, False
        if fault and fault["where"] == "close":
            return None, None, False, False         # a caller-owned stream is closed by the caller: no fault
        if s.fired:
            return None, None, True, False          # the write error was swallowed: judged by the caller
        r = s.reader()
        return (pp.from_pickle(r) if binary else pp.from_json(r)), None, s.fired, False
    if fmt in ("json_path", "pickle_path"):
        binary = fmt == "pickle_path"
        p = os.path.join(tmpdir, "n.p" if binary else "n.json")
        state = {"file": None}
        real_open = open
        if fault:
            size = len(pp.to_json(net)) if not binary else 20000

            def sim_open(path, mode="r", *a, **k):
                fh = real_open(path, mode, *a, **k)
                if str(path).startswith(tmpdir) and ("w" in mode or "a" in mode):
                    state["file"] = FaultyFile(fh, fault, size)
                    return state["file"]
                return fh
            fio.open = sim_open
        try:
            try:
                (pp.to_pickle if binary else pp.to_json)(net, p)
            except BaseException as e:
                return None, e, bool(state["file"] and state["file"].fired), False
        finally:
            if fault:
                del fio.open
        if state["file"] is not None and state["file"].fired:
            return None, None, True, False          # the stream error was swallowed: judged by the caller
        return (pp.from_pickle(p) if binary else pp.from_json(p)), None, fired, False
    if fmt in ("excel", "sqlite"):
        # these formats hold element data only: object-valued tables (group member lists, controller and
        # characteristic objects) are left out, so that what they CAN represent is really exercised
        net = copy.deepcopy(net)
        for tab in ("group", "controller", "characteristic"):
            if tab in net and len(net[tab]):
                net[tab] = net[tab].iloc[0:0]
    if fmt == "excel":
        p = os.path.join(tmpdir, "n.xlsx")
        try:
            pp.to_excel(net, p)
        except Exception as e:
            return None, e, False, True
        return pp.from_excel(p), None, False, False
    if fmt == "sqlite":
        p = os.path.join(tmpdir, "n.db")
        if os.path.exists(p):
            os.remove(p)
        try:
            pp.to_sqlite(net, p)
        except Exception as e:
            return None, e, False, True
        return pp.from_sqlite(p), None, False, False
    raise ValueError(fmt)


def execute(ep, ctx):
    import pandapower as pp
    L = None
    R = None
    r_fmt = None
    since_save = []
    tmpdir = f"/dev/shm/ppsim-{os.getpid()}-c20-{ep.get('episode_index', 0)}"
    os.makedirs(tmpdir, exist_ok=True)
    try:
        for i, op in enumerate(ep["ops"]):
            k = op["op"]
            if k == "template":
                L = ops.apply_template(op)
                R = None
                ctx.event("template", op["name"])
                continue
            if L is None:
                continue
            ctx.sim["ops"] += 1
            if k == "decorate":
                c22.decorate(L, op["k"])
                if R is not None:
                    c22.decorate(R, op["k"])
                ctx.event("decorate")
            elif k == "extras":
                add_extras(L, op["k"])
                if R is not None:
                    add_extras(R, op["k"])
                ctx.event("extras")
            elif k in ("set", "toggle", "create", "drop_el"):
                st, _ = ops.apply_basic(L, op)
                st2 = None
                if R is not None:
                    st2, _ = ops.apply_basic(R, op)
                    if st2 != st:
                        ctx.violation(f"C20|{r_fmt}|later divergence|edit outcome",
                                      f"op{i} {k}: live -> {st}, loaded replica ({r_fmt}) -> {st2}", op=i)
                since_save.append(k)
                ctx.event(k, st, st2)
            elif k == "set_opts":
                pp.set_user_pf_options(L, **op["kw"])
                if R is not None:
                    pp.set_user_pf_options(R, **op["kw"])
                since_save.append("opts")
                ctx.event("set_opts", sorted(op["kw"]))
            elif k == "calc":
                _exec_calc(L, R, r_fmt, op, i, ctx)
                since_save.append("calc")
            elif k == "save_load":
                newR = _exec_save_load(L, op, i, ctx, tmpdir, since_save)
                if newR is not None:
                    R, r_fmt = newR, op["fmt"]
                since_save = []
    finally:
        shutil.rmtree(tmpdir, ignore_errors=True)


def _run(net, kind, kw):
    import pandapower as pp
    if kind == "run_control":
        from pandapower.control import run_control
        return c08._plain_call(lambda: run_control(net, **kw))
    return c08._plain(net, kind, copy.deepcopy(kw))


def _exec_calc(L, R, r_fmt, op, i, ctx):
    _, eL = _run(L, op["kind"], op["kw"])
    oL = "ok" if eL is None else type(eL).__name__
    oR = None
    if R is not None and r_fmt not in ("excel", "sqlite"):
        _, eR = _run(R, op["kind"], op["kw"])
        oR = "ok" if eR is None else type(eR).__name__
        ctx.probe("replica_compared_after_later_calc")
        ctx.conclusive += 1
        if (eL is None) != (eR is None):
            ctx.violation(f"C20|{r_fmt}|later divergence|calculation outcome",
                          f"op{i} {op['kind']}({op['kw']}): live -> {oL}, loaded replica -> {oR}: "
                          f"{str(eL or eR)[:120]}", op=i)
        elif eL is None:
            pref = "res_"
            tabs = [t for t in L.keys() if t.startswith("res_") and isinstance(L[t], pd.DataFrame)
                    and (t.endswith("_sc") if op["kind"] == "calc_sc" else not t.endswith(("_sc", "_3ph", "_est")))]
            diffs = oracles.compare_results(R, L, tables=tabs)
            if diffs:
                t, c, what, d = diffs[0]
                ctx.violation(f"C20|{r_fmt}|later divergence|results",
                              f"op{i} {op['kind']}({op['kw']}): loaded replica differs from the live net in {t}.{c}: "
                              f"{what} {d} ({len(diffs)} column(s))", op=i)
    ctx.event("calc", op["kind"], oL, oR)


def _exec_save_load(L, op, i, ctx, tmpdir, since_save):
    import pandapower as pp
    fmt = op["fmt"]
    fault = op.get("fault")
    ctx.sim["save_load_pairs"] += 1
    if len(L.controller):
        ctx.probe("controllers_present_at_save")
    if len(L.group):
        ctx.probe("groups_present_at_save")
    snap = oracles.snapshot(L, with_results=True)
    if fault:
        ctx.fault_configured("stream-error")
    try:
        loaded, exc, fired, refused = save_and_load(L, fmt, tmpdir, fault, ctx)
    except Exception as e:
        # (save errors are returned; this is the load - or a fault-free save - raising: judged below)
        loaded, exc, fired, refused = None, e, False, False
    if fired:
        ctx.fault_fired("stream-error")
        ctx.probe("stream_error_fired")
    kinds = c22.kinds_present(L)
    feature = f"{fmt}|{kinds}|{'/'.join(since_save[-4:]) or '-'}|{fault['where'] if fault else '-'}"
    # the live net is never affected by saving
    diffs, _ = oracles.diff_snapshot(snap, L)
    for d in diffs[:2]:
        ctx.violation(f"C20|{fmt}|live net changed by saving|{d['table']}",
                      f"op{i} save ({fmt}): net.{d['table']} {d['kind']} {d.get('col') or ''} {d['detail']}", op=i)
    if refused:
        ctx.probe("format_refused_to_save")
        ctx.inconclusive += 1
        ctx.event("save_load", fmt, "refused", type(exc).__name__)
        return None
    if fault and fired:
        if exc is None:
            ctx.violation(f"C20|{fmt}|save returned normally after stream error",
                          f"op{i}: {fault['errno']} raised by {fault['where']} of the output, but the save returned "
                          f"normally", op=i)
        elif not isinstance(exc, OSError):
            ctx.violation(f"C20|{fmt}|stream error replaced by {type(exc).__name__}",
                          f"op{i}: {fault['errno']} raised by {fault['where']}, save raised {type(exc).__name__}: "
                          f"{exc!s:.100}", op=i)
        else:
            ctx.probe("save_raised_as_required")
        ctx.conclusive += 1
        # faults stop: the next save must succeed and round-trip
        try:
            loaded, exc, _, _ = save_and_load(L, fmt, tmpdir, None, ctx)
        except Exception as e:
            loaded, exc = None, e
        fault = None
    if exc is not None:
        ctx.violation(f"C20|{fmt}|save or load raised {type(exc).__name__}",
                      f"op{i} ({fmt}): {type(exc).__name__}: {exc!s:.160}", op=i)
        ctx.event("save_load", fmt, type(exc).__name__)
        return None
    if loaded is None:
        ctx.event("save_load", fmt, "skipped")
        return None
    cmp_ = compare_nets(L, loaded, fmt, tables_only=fmt in ("excel", "sqlite"), value_only=fmt in ("excel", "sqlite"))
    sigs = []
    for kind, where, detail in cmp_:
        tab = where.split(".")[0]
        sig = f"C20|{fmt}|{kind}|{tab}"
        if sig not in sigs:
            sigs.append(sig)
            ctx.violation(sig, f"op{i} round trip through {fmt}: {where}: {detail}", op=i)
    if op.get("again") and not sigs and fmt not in ("excel", "sqlite"):
        # the loaded net is saved and loaded once more (save - load - save - load): still nothing is lost
        try:
            loaded2, exc2, _, _ = save_and_load(loaded, fmt, tmpdir, None, ctx)
        except Exception as e:
            loaded2, exc2 = None, e
        ctx.probe("loaded_net_saved_and_loaded_again")
        if exc2 is not None:
            ctx.violation(f"C20|{fmt}|second round trip raised {type(exc2).__name__}",
                          f"op{i} ({fmt}): saving / loading the loaded net raised {type(exc2).__name__}: {exc2!s:.120}", op=i)
        elif loaded2 is not None:
            for kind, where, detail in compare_nets(L, loaded2, fmt)[:3]:
                sig = f"C20|{fmt}|second round trip:{kind}|{where.split('.')[0]}"
                if sig not in sigs:
                    sigs.append(sig)
                    ctx.violation(sig, f"op{i} second round trip through {fmt}: {where}: {detail}", op=i)
    ctx.conclusive += 1
    ctx.features.append(feature)
    ctx.event("save_load", fmt, "ok", len(cmp_), sigs)
    if fmt in ("excel", "sqlite"):
        return None     # element data only: not a replica that can follow the rest of the history
    return loaded
