"""Crash-point seam: sys.settrace based exception injection inside pandapower frames.

Eligible events are 'call' and 'line' events of frames whose code lives under <repo>/pandapower
(tests excluded).  Not eligible (recovery extent, DESIGN 3.3):
  (a) a line inside a `finally:` body or an `except` handler (AST of the current working tree),
  (b) any frame that has such a frame among its callers,
  (c) __exit__/__del__ methods,
  (d) the `try:` header line itself (a NOP: no bytecode that can raise executes there).
"""
import ast
import os
import sys

from . import REPO

PKG = os.path.join(os.path.realpath(REPO), "pandapower") + os.sep
TESTS = os.path.join(PKG, "test") + os.sep


class InjectedFault(Exception):
    """The simulator's own crash."""


EXC_TYPES = {"InjectedFault": InjectedFault, "KeyboardInterrupt": KeyboardInterrupt,
             "MemoryError": MemoryError}

RECOV = {}      # filename -> frozenset(line numbers inside finally/except/__exit__/__del__)
TRYLINES = {}   # filename -> frozenset(line numbers of `try:` headers)
_built = False


def build_recovery_index(force=False):
    global _built
    if _built and not force:
        return
    RECOV.clear()
    TRYLINES.clear()
    for root, dirs, files in os.walk(PKG):
        dirs.sort()
        if (root + os.sep).startswith(TESTS):
            continue
        for fn in sorted(files):
            if not fn.endswith(".py"):
                continue
            path = os.path.join(root, fn)
            try:
                with open(path, "rb") as fh:
                    tree = ast.parse(fh.read(), filename=path)
            except SyntaxError:
                continue
            rec, tr = set(), set()
            for node in ast.walk(tree):
                if isinstance(node, (ast.Try, getattr(ast, "TryStar", ast.Try))):
                    tr.add(node.lineno)
                    for h in node.handlers:
                        rec.update(range(h.lineno, (h.end_lineno or h.lineno) + 1))
                    if node.finalbody:
                        lo = node.finalbody[0].lineno
                        hi = max((n.end_lineno or n.lineno) for n in node.finalbody)
                        rec.update(range(lo, hi + 1))
                elif isinstance(node, (ast.FunctionDef, ast.AsyncFunctionDef)) and \
                        node.name in ("__exit__", "__del__", "__aexit__"):
                    rec.update(range(node.lineno, (node.end_lineno or node.lineno) + 1))
            RECOV[path] = frozenset(rec)
            TRYLINES[path] = frozenset(tr)
    _built = True


def _called_from_recovery(frame):
    f = frame.f_back
    while f is not None:
        r = RECOV.get(f.f_code.co_filename)
        if r is not None and f.f_lineno in r:
            return True
        f = f.f_back
    return False


def _pp_stack(frame, limit=40):
    out = []
    f = frame
    while f is not None and len(out) < limit:
        fn = f.f_code.co_filename
        if fn in RECOV:
            out.append(f.f_code.co_name)
        f = f.f_back
    return out


class Tracer:
    """mode 'count': count eligible events and their sites.
    mode 'inject': raise `exc` at the `index`-th (0-based) eligible event of granularity `gran`."""

    def __init__(self, gran="line", index=None, exc=None, record_sites=True, on_fire=None):
        self.on_fire = on_fire
        self.gran = gran
        self.index = index
        self.exc = exc
        self.n = 0                    # eligible events of granularity `gran` seen so far
        self.n_call = 0
        self.n_line = 0
        self.record_sites = record_sites
        self.site_ids = {}            # (relfile, func) -> id
        self.site_seq = []            # per eligible event (of gran): site id
        self.fired = None             # dict when the fault fired
        self._codes = {}              # code -> (recov, trylines, sid) or None

    # -- site bookkeeping -------------------------------------------------------------------
    def _site(self, code):
        key = (code.co_filename[len(PKG):], code.co_name)
        sid = self.site_ids.get(key)
        if sid is None:
            sid = self.site_ids[key] = len(self.site_ids)
        return sid

    def sites_sorted(self):
        return sorted(self.site_ids)

    def _event(self, frame, sid):
        """one eligible event of the selected granularity"""
        i = self.n
        self.n = i + 1
        if self.record_sites:
            self.site_seq.append(sid)
        if i == self.index:
            code = frame.f_code
            self.fired = {"gran": self.gran, "index": i, "file": code.co_filename[len(PKG):],
                          "func": code.co_name, "line": frame.f_lineno,
                          "stack": _pp_stack(frame)}
            sys.settrace(None)
            if self.on_fire is not None:
                self.on_fire(self.fired)
            raise self.exc

    # -- trace functions ---------------------------------------------------------------------
    def global_trace(self, frame, event, arg):
        code = frame.f_code
        info = self._codes.get(code, 0)
        if info == 0:
            fn = code.co_filename
            if fn in RECOV and code.co_name != "<module>":   # module bodies = imports, not pipeline
                info = (RECOV[fn], TRYLINES[fn], self._site(code))
            else:
                info = None
            self._codes[code] = info
        if info is None:
            return None
        recov, trylines, sid = info
        if frame.f_lineno in recov or _called_from_recovery(frame):
            return None               # (b)/(c): nothing in this frame is eligible
        self.n_call += 1
        if self.gran == "call":
            self._event(frame, sid)
            return None
        tracer = self

        def local_trace(frame, event, arg):
            if event == "line":
                ln = frame.f_lineno
                if ln not in recov and ln not in trylines:
                    tracer.n_line += 1
                    tracer._event(frame, sid)
            return local_trace

        return local_trace

    def run(self, fn):
        """run fn() under the tracer; returns (result, exception)"""
        build_recovery_index()
        old = sys.gettrace()
        sys.settrace(self.global_trace)
        try:
            return fn(), None
        except BaseException as e:  # noqa: the whole point
            return None, e
        finally:
            sys.settrace(old)


def resolve_plan(counter, fault):
    """Resolve the abstract fault plan against a dry-run Tracer (`counter`): returns index or None.

    fault = {"gran": "call"|"line", "strat": "uniform"|"site", "u": float, "v": float}
    """
    n = counter.n
    if n == 0:
        return None
    if fault.get("strat") == "site" and counter.site_seq:
        present = sorted(set(counter.site_seq))
        # order sites by name for stability across trees
        names = {sid: key for key, sid in counter.site_ids.items()}
        present.sort(key=lambda s: names[s])
        sid = present[min(int(fault["u"] * len(present)), len(present) - 1)]
        occ = [i for i, s in enumerate(counter.site_seq) if s == sid]
        return occ[min(int(fault["v"] * len(occ)), len(occ) - 1)]
    return min(int(fault["u"] * n), n - 1)
