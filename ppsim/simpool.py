"""Process-pool seam: in-process workers with pickled isolation and a planned schedule.

What the stub preserves: argument/result isolation by pickling (every chunk of tasks is
pickle.dumps((func, chunk)) / loads into the "worker" and the results are pickled back),
Pool.map's chunking rule (divmod(len, 4*n)) and its in-task-order result; completion order and
chunk->worker assignment are drawn from the fault plan; imap_unordered / apply_async callbacks /
as_completed deliver in completion order (so a refactoring towards unordered collection is still
simulated).  What it does not preserve: separate module globals per worker, real scheduling.
"""
import pickle


class Schedule:
    """{"n_procs": 3, "chunksize": None|int, "assign": [..], "complete": [..]} -- abstract choices"""

    def __init__(self, plan, log=None):
        self.plan = plan or {}
        self.log = log if log is not None else []

    def chunks(self, n_tasks, n_workers, chunksize=None):
        cs = chunksize or self.plan.get("chunksize")
        if not cs:
            cs, extra = divmod(n_tasks, max(1, n_workers) * 4)
            if extra:
                cs += 1
        cs = max(1, int(cs))
        return [list(range(i, min(i + cs, n_tasks))) for i in range(0, n_tasks, cs)]

    def completion_order(self, n_chunks):
        perm = list(range(n_chunks))
        keys = self.plan.get("complete") or []
        # abstract permutation: sort chunk ids by the planned keys (ties by id), missing keys = id
        return sorted(perm, key=lambda c: (keys[c % len(keys)] if keys else c, c))

    def worker_of(self, chunk_id, n_workers):
        a = self.plan.get("assign") or []
        return (a[chunk_id % len(a)] if a else chunk_id) % max(1, n_workers)


class _AsyncResult:
    def __init__(self, value=None, exc=None):
        self._value, self._exc = value, exc

    def get(self, timeout=None):
        if self._exc is not None:
            raise self._exc
        return self._value

    def wait(self, timeout=None):
        return None

    def ready(self):
        return True

    def successful(self):
        return self._exc is None


class SimPool:
    """drop-in for multiprocessing.Pool / multiprocessing.pool.Pool"""

    current_schedule = Schedule({})
    stats = {"pools": 0, "maps": 0, "chunks": 0, "out_of_order": 0, "tasks": 0, "workers": 0}

    def __init__(self, processes=None, initializer=None, initargs=(), maxtasksperchild=None, context=None):
        sched = SimPool.current_schedule
        self.n = int(processes or sched.plan.get("cpu_count") or 4)
        self.sched = sched
        SimPool.stats["pools"] += 1
        SimPool.stats["workers"] = max(SimPool.stats["workers"], self.n)
        if initializer is not None:
            initializer(*initargs)
        self.closed = False

    # -- context manager ----------------------------------------------------------------------
    def __enter__(self):
        return self

    def __exit__(self, *a):
        self.terminate()
        return False

    def close(self):
        self.closed = True

    def terminate(self):
        self.closed = True

    def join(self):
        return None

    # -- execution ------------------------------------------------------------------------------
    def _run_chunks(self, func, tasks, chunksize=None, star=False):
        """returns (results by task index, completion order of task indices)"""
        tasks = list(tasks)
        chunks = self.sched.chunks(len(tasks), self.n, chunksize)
        order = self.sched.completion_order(len(chunks))
        SimPool.stats["maps"] += 1
        SimPool.stats["chunks"] += len(chunks)
        SimPool.stats["tasks"] += len(tasks)
        if order != sorted(order):
            SimPool.stats["out_of_order"] += 1
        results = {}
        completed = []
        first_exc = None
        for cid in order:
            idxs = chunks[cid]
            worker = self.sched.worker_of(cid, self.n)
            payload = pickle.dumps((func, [tasks[i] for i in idxs]))       # crosses the process boundary
            f, items = pickle.loads(payload)
            out = []
            for it in items:
                try:
                    out.append((True, f(*it) if star else f(it)))
                except Exception as e:  # a worker exception is shipped back and re-raised by map()
                    out.append((False, e))
            back = pickle.loads(pickle.dumps(out))
            self.sched.log.append(["chunk", cid, "worker", worker, "tasks", idxs])
            for i, (ok, val) in zip(idxs, back):
                results[i] = (ok, val)
                completed.append(i)
                if not ok and first_exc is None:
                    first_exc = val
        return results, completed, first_exc

    def map(self, func, iterable, chunksize=None):
        res, _, exc = self._run_chunks(func, iterable, chunksize)
        if exc is not None:
            raise exc
        return [res[i][1] for i in range(len(res))]

    def starmap(self, func, iterable, chunksize=None):
        res, _, exc = self._run_chunks(func, iterable, chunksize, star=True)
        if exc is not None:
            raise exc
        return [res[i][1] for i in range(len(res))]

    def imap(self, func, iterable, chunksize=1):
        res, _, _ = self._run_chunks(func, iterable, chunksize)
        for i in range(len(res)):
            ok, val = res[i]
            if not ok:
                raise val
            yield val

    def imap_unordered(self, func, iterable, chunksize=1):
        res, completed, _ = self._run_chunks(func, iterable, chunksize)
        for i in completed:
            ok, val = res[i]
            if not ok:
                raise val
            yield val

    def map_async(self, func, iterable, chunksize=None, callback=None, error_callback=None):
        try:
            out = self.map(func, iterable, chunksize)
        except Exception as e:
            if error_callback:
                error_callback(e)
            return _AsyncResult(exc=e)
        if callback:
            callback(out)
        return _AsyncResult(out)

    def apply(self, func, args=(), kwds=None):
        f, a, k = pickle.loads(pickle.dumps((func, args, kwds or {})))
        return pickle.loads(pickle.dumps(f(*a, **k)))

    def apply_async(self, func, args=(), kwds=None, callback=None, error_callback=None):
        try:
            out = self.apply(func, args, kwds)
        except Exception as e:
            if error_callback:
                error_callback(e)
            return _AsyncResult(exc=e)
        if callback:
            callback(out)
        return _AsyncResult(out)


class SimMP:
    """stands in for the `mp` name inside pandapower.contingency.contingency_parallel"""

    Pool = SimPool

    def __init__(self, cpu_count=4):
        self._cpu = cpu_count

    def cpu_count(self):
        return self._cpu

    def get_context(self, method=None):
        return self


def install(module, schedule, cpu_count=4):
    """replace the multiprocessing seam of `module` (attribute `mp`); returns undo()"""
    import multiprocessing
    import multiprocessing.pool
    old = {"mp": getattr(module, "mp", None), "Pool": multiprocessing.Pool, "pool.Pool": multiprocessing.pool.Pool}
    SimPool.current_schedule = schedule
    schedule.plan.setdefault("cpu_count", cpu_count)
    module.mp = SimMP(cpu_count)
    multiprocessing.Pool = SimPool
    multiprocessing.pool.Pool = SimPool

    def undo():
        module.mp = old["mp"]
        multiprocessing.Pool = old["Pool"]
        multiprocessing.pool.Pool = old["pool.Pool"]
        SimPool.current_schedule = Schedule({})
    return undo
